package essentials

// SHIM: this file is /verif's copy of essentials v1.3.0 concurrency.go with
// scheduling points added for the deterministic simulator.  Goroutine
// structure, the strided index partition, the WaitGroup and the reduce mutex
// are unchanged; every other file of this directory is a byte-identical copy
// of the module.  VerifYield/VerifAcquire/VerifRelease are nil outside a
// simulation, in which case the added lines do nothing.

import (
	"runtime"
	"sync"
	"unsafe"
)

var (
	VerifYield   func(site string, key int)
	VerifAcquire func(id uintptr, site string, key int)
	VerifRelease func(id uintptr)
)

func simYield(site string, key int) {
	if f := VerifYield; f != nil {
		f(site, key)
	}
}

// ConcurrentMap calls f for every integer in [0, n).
//
// If maxGos is 0, then GOMAXPROCS goroutines are started.
// Otherwise, up to maxGos goroutines are used.
func ConcurrentMap(maxGos, n int, f func(i int)) {
	StatefulConcurrentMap(maxGos, n, func() func(int) {
		return f
	})
}

// StatefulConcurrentMap is like ConcurrentMap, but it
// calls g once per Goroutine, and then calls the result
// of g with every index on that Goroutine.
// Note that g may be called concurrently from multiple
// Goroutines at once.
//
// This can be useful if Goroutines each have their own
// local set of resources that they can reuse.
// For example, each Goroutine might have a connection
// pool or a local random number generator instance.
func StatefulConcurrentMap(maxGos, n int, g func() func(i int)) {
	ReduceConcurrentMap(maxGos, n, func() (func(int), func()) {
		return g(), nil
	})
}

// ReduceConcurrentMap is like StatefulConcurrentMap, but
// a final reduction function is called at the end of each
// Goroutine.
//
// The reduce function is called from one Goroutine at a
// time to allow aggregation operations to be unsafe.
// If the reduction function is nil, this is equivalent to
// StatefulConcurrencyMap.
//
// This can be used to have each Goroutine accumulate some
// partial information which is then aggregated.
func ReduceConcurrentMap(maxGos, n int, g func() (iter func(i int), reduce func())) {
	if maxGos == 0 {
		maxGos = runtime.GOMAXPROCS(0)
	}
	if maxGos > n {
		maxGos = n
	}

	var wg sync.WaitGroup
	var lock sync.Mutex
	for i := 0; i < maxGos; i++ {
		wg.Add(1)
		go func(start int) {
			simYield("cm.worker.start", start)
			defer wg.Done()
			f, reduce := g()
			for i := start; i < n; i += maxGos {
				simYield("cm.worker.item", i)
				f(i)
			}
			if reduce != nil {
				// the simulated lock serialises the reduce sections at
				// scheduling level; the real mutex below is then uncontended
				// but still provides the happens-before edges of the original.
				if a := VerifAcquire; a != nil {
					a(uintptr(unsafe.Pointer(&lock)), "cm.worker.reduce", start)
					defer VerifRelease(uintptr(unsafe.Pointer(&lock)))
				}
				lock.Lock()
				defer lock.Unlock()
				reduce()
			}
		}(i)
	}
	simYield("cm.wait", n)
	wg.Wait()
	simYield("cm.waited", n)
}
