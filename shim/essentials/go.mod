module github.com/unixpickle/essentials

go 1.12
