//+build go1.8

package essentials

import "reflect"

func swapper(list interface{}) func(i, j int) {
	return reflect.Swapper(list)
}
