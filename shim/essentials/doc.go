// Package essentials provides functions that I find
// myself needing on a day to day basis in pretty much
// every Go program I write.
package essentials
