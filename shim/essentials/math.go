package essentials

import "math"

// MaxInt computes the maximum of the arguments.
// If no arguments are provided, 0 is returned.
func MaxInt(ns ...int) int {
	if len(ns) == 0 {
		return 0
	}
	max := ns[0]
	for _, x := range ns[1:] {
		if x > max {
			max = x
		}
	}
	return max
}

// MinInt computes the minimum of the arguments.
// If no arguments are provided, 0 is returned.
func MinInt(ns ...int) int {
	if len(ns) == 0 {
		return 0
	}
	min := ns[0]
	for _, x := range ns[1:] {
		if x < min {
			min = x
		}
	}
	return min
}

// AbsInt computes the absolute value of an int.
func AbsInt(n int) int {
	if n < 0 {
		return -n
	}
	return n
}

// Round rounds to the nearest whole number.
//
// When x is the same distance from two different whole
// numbers, the one further from zero is selected.
func Round(x float64) float64 {
	if x < 0 {
		return math.Ceil(x - 0.5)
	} else {
		return math.Floor(x + 0.5)
	}
}
