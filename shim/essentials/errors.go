package essentials

// CtxError is an error with some added context.
type CtxError struct {
	Context  string
	Original error
}

// Cause returns the original error.
func (c *CtxError) Cause() error {
	return c.Original
}

// Unwrap returns the original error.
func (c *CtxError) Unwrap() error {
	return c.Original
}

// AddCtx creates a *CtxError by adding some context
// to an existing error.
// If the original error is nil, then this returns nil.
func AddCtx(ctx string, err error) error {
	if err == nil {
		return nil
	}
	return &CtxError{Context: ctx, Original: err}
}

// AddCtxTo is like doing
//
//     *err = AddCtx(ctx, *err)
//
// It is useful for adding context to a named return
// argument, like in:
//
//     func MyMethod() (err error) {
//         defer essentials.AddCtxTo("MyMethod", &err)
//         // Code here...
//     }
func AddCtxTo(ctx string, err *error) {
	*err = AddCtx(ctx, *err)
}

// Error returns an error message with added context.
// The message is of the form "Context: Original.Error()".
func (c *CtxError) Error() string {
	return c.Context + ": " + c.Original.Error()
}
