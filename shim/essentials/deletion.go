package essentials

import "reflect"

// UnorderedDelete removes the indexed element from the
// slice, potentially changing the order of the slice in
// the process.
//
// The slicePtr argument must be a pointer to a slice.
//
// This performs the deletion in O(1) time, at the expense
// of re-ordering the set.
// For an order-preserving deletion, see OrderedDelete.
func UnorderedDelete(slicePtr interface{}, idx int) {
	slicePtrVal := reflect.ValueOf(slicePtr)
	if slicePtrVal.Type().Kind() != reflect.Ptr ||
		slicePtrVal.Type().Elem().Kind() != reflect.Slice {
		panic("first argument must be slice pointer")
	}
	slice := slicePtrVal.Elem()
	if idx < 0 || idx >= slice.Len() {
		panic("index out of range")
	}
	slice.Index(idx).Set(slice.Index(slice.Len() - 1))
	shrinkSlice(slice)
}

// OrderedDelete removes the indexed element from the
// slice and moves the following elements to fill its
// place.
//
// The slicePtr argument must be a pointer to a slice.
//
// This performs the deletion in O(N) time, with the
// benefit that it preserves the order of the slice.
// For a deletion that ignores order, see UnorderedDelete.
func OrderedDelete(slicePtr interface{}, idx int) {
	slicePtrVal := reflect.ValueOf(slicePtr)
	if slicePtrVal.Type().Kind() != reflect.Ptr ||
		slicePtrVal.Type().Elem().Kind() != reflect.Slice {
		panic("first argument must be slice pointer")
	}
	slice := slicePtrVal.Elem()
	if idx < 0 || idx >= slice.Len() {
		panic("index out of range")
	}
	reflect.Copy(slice.Slice(idx, slice.Len()-1), slice.Slice(idx+1, slice.Len()))
	shrinkSlice(slice)
}

func shrinkSlice(slice reflect.Value) {
	// Zero last element to prevent memory leak.
	lastElem := slice.Index(slice.Len() - 1)
	lastElem.Set(reflect.Zero(lastElem.Type()))

	slice.Set(slice.Slice(0, slice.Len()-1))
}
