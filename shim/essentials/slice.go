package essentials

import (
	"reflect"
	"sort"
)

// Reverse reverses a slice in-place.
func Reverse(slice interface{}) {
	size := reflect.ValueOf(slice).Len()
	sw := swapper(slice)
	for i := 0; i < size/2; i++ {
		sw(i, size-i-1)
	}
}

// Contains checks if a slice contains a value.
// Comparisons are performed using the == operator.
func Contains(slice, value interface{}) bool {
	sliceVal := reflect.ValueOf(slice)
	for i := 0; i < sliceVal.Len(); i++ {
		if sliceVal.Index(i).Interface() == value {
			return true
		}
	}
	return false
}

// VoodooSort sorts the list using the comparator, while
// simultaneously re-ordering a set of other lists to
// match the re-ordering of the sorted list.
// In a sense, what is done to the sorted list is also
// done to the other lists, making the sorted list like a
// voodoo doll.
func VoodooSort(slice interface{}, less func(i, j int) bool, other ...interface{}) {
	vs := &voodooSorter{
		length:   reflect.ValueOf(slice).Len(),
		swappers: []func(i, j int){swapper(slice)},
		less:     less,
	}
	for _, o := range other {
		vs.swappers = append(vs.swappers, swapper(o))
	}
	sort.Sort(vs)
}

type voodooSorter struct {
	length   int
	swappers []func(i, j int)
	less     func(i, j int) bool
}

func (v *voodooSorter) Len() int {
	return v.length
}

func (v *voodooSorter) Swap(i, j int) {
	for _, s := range v.swappers {
		s(i, j)
	}
}

func (v *voodooSorter) Less(i, j int) bool {
	return v.less(i, j)
}
