package essentials

import (
	"fmt"
	"os"
)

// Die prints the arguments to standard error in a style
// like the one used by fmt.Println, then exits with an
// error status code.
func Die(args ...interface{}) {
	fmt.Fprintln(os.Stderr, args...)
	os.Exit(1)
}

// Must dies with the error if it is non-nil.
// If the error is nil, Must is a no-op.
func Must(err error) {
	if err != nil {
		Die(err)
	}
}
