//+build !go1.8

package essentials

import "reflect"

func swapper(list interface{}) func(i, j int) {
	val := reflect.ValueOf(list)
	return func(i, j int) {
		val1 := val.Index(i)
		val2 := val.Index(j)
		backup := val1.Interface()
		val1.Set(val2)
		val2.Set(reflect.ValueOf(backup))
	}
}
