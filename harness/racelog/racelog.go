// Package racelog reads the race detector's log file of the current process
// (GORACE log_path=<prefix>; file <prefix>.<pid>) incrementally, so that a
// worker can attribute each report to the simulated run that produced it.
package racelog

import (
	"fmt"
	"os"
	"regexp"
	"sort"
	"strings"
)

type Report struct {
	Tops [2]string // top model3d frame of each access ("" if none)
	Sig  string
	Text string
	Repo bool // at least one model3d frame among the two access stacks
}

type Tail struct {
	path string
	off  int64
}

// Open returns a tail of this process's race log, or nil if GORACE has no log_path.
func Open() *Tail {
	m := regexp.MustCompile(`log_path=(\S+)`).FindStringSubmatch(os.Getenv("GORACE"))
	if m == nil {
		return nil
	}
	return &Tail{path: fmt.Sprintf("%s.%d", m[1], os.Getpid())}
}

var frameRe = regexp.MustCompile(`(?m)^\s*github\.com/unixpickle/model3d/(\S+)\(\)\s*$`)

// New returns the reports written since the last call.
func (t *Tail) New() []Report {
	if t == nil {
		return nil
	}
	f, err := os.Open(t.path)
	if err != nil {
		return nil
	}
	defer f.Close()
	st, _ := f.Stat()
	if st.Size() <= t.off {
		return nil
	}
	buf := make([]byte, st.Size()-t.off)
	f.ReadAt(buf, t.off)
	txt := string(buf)
	// only consume complete reports
	end := strings.LastIndex(txt, "==================\n")
	if end < 0 {
		return nil
	}
	end += len("==================\n")
	t.off += int64(end)
	txt = txt[:end]
	var out []Report
	for _, block := range strings.Split(txt, "WARNING: DATA RACE")[1:] {
		if i := strings.Index(block, "=================="); i >= 0 {
			block = block[:i]
		}
		// sections are separated by blank lines: access 1, access 2, goroutine creation...
		secs := strings.Split(strings.TrimSpace(block), "\n\n")
		r := Report{Text: "WARNING: DATA RACE" + block}
		for i := 0; i < 2 && i < len(secs); i++ {
			if m := frameRe.FindStringSubmatch(secs[i]); m != nil {
				r.Tops[i] = m[1]
				r.Repo = true
			}
		}
		tops := []string{r.Tops[0], r.Tops[1]}
		sort.Strings(tops)
		r.Sig = "race|" + tops[0] + "|" + tops[1]
		out = append(out, r)
	}
	return out
}
