//go:build verif

// Package c12: meshing and rasterising results must not depend on worker
// count, buffering, tuning constants, conservative filters, coarse-to-fine
// pre-passes or the goroutine schedule (DESIGN.md section 4, C12).
package c12

import (
	"encoding/binary"
	"fmt"
	"image"
	"math"
	"math/rand"
	"runtime"
	"sort"
	"strings"
	"testing"

	"github.com/unixpickle/model3d/model2d"
	"github.com/unixpickle/model3d/model3d"
	"verif/harness/choice"
	_ "verif/harness/hook"
	"verif/harness/simsched"
	"verif/harness/simsolid"
	"verif/harness/wproto"
)

type Case struct {
	Property string   `json:"property"`
	Engine   string   `json:"engine"`
	Algo     string   `json:"algo"`
	Work     []uint32 `json:"work"`
	Sched    []uint32 `json:"sched"`
	// Pol: the auxiliary tape of the schedule stream (scheduling policy, priorities)
	Pol []uint32 `json:"pol,omitempty"`
	// Seed/Index identify a PRNG-driven case whose tapes could not be recorded
	// (the process died mid-run); replay then regenerates it from the PRNG.
	Seed  uint64 `json:"seed,omitempty"`
	Index int    `json:"index,omitempty"`
}

type Finding struct{ Sig, Msg string }

type Stats struct {
	Steps, Preempt, Tasks, MaxRunnable int
	TraceHashes                        []string
	Faces                              int
	Discarded                          string
	Workers                            int
	Desc                               string
	Probes                             map[string]int
	Calls                              int
	ProcsFaults                        int // runs in which GOMAXPROCS was changed under the running call
	// MapDep names the library routine whose Go-map iteration legitimately
	// influences this case's execution order or bytes ("" = none): such a case is
	// compared only on its order-free parts by the determinism self-test.
	MapDep string
}

func (s *Stats) probe(k string) {
	if s.Probes == nil {
		s.Probes = map[string]int{}
	}
	s.Probes[k]++
}

func (s *Stats) absorb(r simsched.Result) {
	s.Steps += r.Steps
	s.Preempt += r.Preemptions
	if r.Tasks > s.Tasks {
		s.Tasks = r.Tasks
	}
	if r.MaxRunnable > s.MaxRunnable {
		s.MaxRunnable = r.MaxRunnable
	}
	s.TraceHashes = append(s.TraceHashes, r.TraceHash)
}

// ---------------------------------------------------------------- canonical forms

func canon3(m *model3d.Mesh) []string {
	var out []string
	m.Iterate(func(t *model3d.Triangle) {
		var b [72]byte
		for i, v := range t {
			binary.BigEndian.PutUint64(b[i*24:], math.Float64bits(v.X))
			binary.BigEndian.PutUint64(b[i*24+8:], math.Float64bits(v.Y))
			binary.BigEndian.PutUint64(b[i*24+16:], math.Float64bits(v.Z))
		}
		out = append(out, string(b[:]))
	})
	sort.Strings(out)
	return out
}

// Canon3 / Canon2 / CanonGray: order-free digests for other packages' oracles.
func Canon3(m *model3d.Mesh) string {
	return wproto.Hash([]byte(fmt.Sprint(len(canon3(m)), canon3(m))))
}
func Canon2(m *model2d.Mesh) string {
	return wproto.Hash([]byte(fmt.Sprint(len(canon2(m)), canon2(m))))
}

func canon2(m *model2d.Mesh) []string {
	var out []string
	m.Iterate(func(t *model2d.Segment) {
		var b [32]byte
		for i, v := range t {
			binary.BigEndian.PutUint64(b[i*16:], math.Float64bits(v.X))
			binary.BigEndian.PutUint64(b[i*16+8:], math.Float64bits(v.Y))
		}
		out = append(out, string(b[:]))
	})
	sort.Strings(out)
	return out
}

func canonPts(ps []model3d.Coord3D) []string {
	var out []string
	for _, v := range ps {
		var b [24]byte
		binary.BigEndian.PutUint64(b[0:], math.Float64bits(v.X))
		binary.BigEndian.PutUint64(b[8:], math.Float64bits(v.Y))
		binary.BigEndian.PutUint64(b[16:], math.Float64bits(v.Z))
		out = append(out, string(b[:]))
	}
	sort.Strings(out)
	return out
}

func decodeFloats(s string) []float64 {
	var fs []float64
	for i := 0; i+8 <= len(s); i += 8 {
		fs = append(fs, math.Float64frombits(binary.BigEndian.Uint64([]byte(s[i:i+8]))))
	}
	return fs
}

// diff describes how two canonical multisets differ.
func diff(a, b []string) string {
	onlyA, onlyB := 0, 0
	var ex string
	i, j := 0, 0
	for i < len(a) || j < len(b) {
		switch {
		case j >= len(b) || i < len(a) && a[i] < b[j]:
			if ex == "" {
				ex = fmt.Sprint("only in reference: ", decodeFloats(a[i]))
			}
			onlyA++
			i++
		case i >= len(a) || b[j] < a[i]:
			if ex == "" {
				ex = fmt.Sprint("only in variant: ", decodeFloats(b[j]))
			}
			onlyB++
			j++
		default:
			i++
			j++
		}
	}
	if onlyA == 0 && onlyB == 0 {
		return ""
	}
	return fmt.Sprintf("reference has %d faces, variant %d; %d only in reference, %d only in variant; e.g. %s", len(a), len(b), onlyA, onlyB, ex)
}

// ---------------------------------------------------------------- variant configuration

type variant struct {
	Workers    int
	Sticky     int
	YieldEvery uint64
	Knobs      map[string]int
	// fault: GOMAXPROCS becomes ProcsTo inside the ProcsAt-th Contains call (0 = not armed)
	ProcsAt, ProcsTo int
}

func pick(src *choice.Source, vs ...int) int { return vs[src.Intn(len(vs))] }

func genVariant(work *choice.Source) variant {
	v := variant{}
	v.Workers = 1 + work.Intn(16)
	if work.Chance(1, 3) {
		v.Workers = 1 + work.Intn(4)
	}
	if work.Chance(1, 12) {
		// far more workers than this machine has cores (GOMAXPROCS may be set to any
		// value): thresholds such as "more than 64 workers" are not out of reach
		v.Workers = 17 + work.Intn(96)
	}
	v.Sticky = work.Intn(4)
	v.YieldEvery = uint64(pick(work, 0, 7, 61, 509))
	v.Knobs = map[string]int{}
	if work.Chance(2, 3) {
		v.Knobs["mc.subDivideVolume"] = pick(work, 64, 1, 2, 8, 27)
		v.Knobs["mc.divideVolume"] = pick(work, 0, 1, 2, 16, 100, 5000)
		v.Knobs["ms.subDivideVolume"] = pick(work, 64, 1, 2, 8, 27)
		v.Knobs["ms.divideVolume"] = pick(work, 0, 1, 2, 16, 100, 5000)
		v.Knobs["raster.filterSize"] = pick(work, 0, 1, 2, 3, 5, 16, 50)
	}
	return v
}

func (v variant) String() string {
	if v.ProcsAt > 0 {
		return fmt.Sprintf("workers=%d sticky=%d yieldEvery=%d knobs=%v GOMAXPROCS->%d in Contains call %d", v.Workers, v.Sticky, v.YieldEvery, v.Knobs, v.ProcsTo, v.ProcsAt)
	}
	return fmt.Sprintf("workers=%d sticky=%d yieldEvery=%d knobs=%v", v.Workers, v.Sticky, v.YieldEvery, v.Knobs)
}

type runner struct {
	t     *testing.T
	st    *Stats
	sched *choice.Source
	// refKnobs: knobs that only thin out scheduling points (never library
	// constants) also apply to the reference run
	refKnobs   map[string]int
	faultNotes []string
}

// sim runs f under the simulator with the variant's worker count/knobs; ref
// runs it with one worker, FIFO schedule, default knobs.
func (r *runner) sim(v variant, f func()) *Finding {
	runtime.GOMAXPROCS(v.Workers)
	pol := simsched.DrawPolicy(r.sched)
	// fault: GOMAXPROCS changes while the call is in progress (one run in six)
	if aux := r.sched.Aux(); aux.Intn(6) == 5 {
		at := 1 + aux.Intn(1<<uint(1+aux.Intn(14)))
		to := 1 + aux.Intn(2*v.Workers+2)
		simsolid.ArmProcs(at, to)
		v.ProcsAt, v.ProcsTo = at, to
		r.faultNotes = append(r.faultNotes, fmt.Sprintf("GOMAXPROCS %d->%d inside Contains call %d of simulated run %d", v.Workers, to, at, len(r.st.TraceHashes)+1))
	}
	res := simsched.Run(r.t, simsched.Config{Src: r.sched, Sticky: v.Sticky, Knobs: v.Knobs, Policy: pol}, f)
	if simsolid.ArmProcs(0, 0) > 0 {
		r.st.ProcsFaults++
	}
	r.st.absorb(res)
	return outcome(res, "variant "+v.String())
}

func (r *runner) ref(f func()) *Finding {
	runtime.GOMAXPROCS(1)
	res := simsched.Run(r.t, simsched.Config{Src: choice.Replay(nil), Knobs: r.refKnobs}, f)
	r.st.Steps += res.Steps
	return outcome(res, "reference run")
}

func outcome(res simsched.Result, what string) *Finding {
	switch {
	case res.Deadlock:
		return &Finding{"deadlock", fmt.Sprintf("%s: all goroutines blocked after %d steps (parked: %v)", what, res.Steps, res.Blocked)}
	case res.Livelock:
		return &Finding{"livelock", fmt.Sprintf("%s: no termination within %d scheduler steps", what, res.Steps)}
	case res.Panic != nil:
		return &Finding{"panic|" + cls(fmt.Sprint(res.Panic)), fmt.Sprintf("%s: panic: %v\n%s", what, res.Panic, res.PanicStack)}
	}
	return nil
}

func cls(s string) string {
	b := []byte(s)
	for i, c := range b {
		if c >= '0' && c <= '9' {
			b[i] = 'N'
		}
	}
	if len(b) > 60 {
		b = b[:60]
	}
	return string(b)
}

// bigLattice (chance 1/16, drawn after every other workload choice so that
// recorded tapes keep their meaning) shrinks the spacing until the longest axis
// has lo..hi cells and drops the block-size knobs and the Contains yields: the
// library's own size thresholds (block sub-division above 64*4096 cells, buffer
// shifts above 10^6 corners, per-worker batches) are then reached by size, with
// default constants.  The essentials item yield is thinned to every 257th item.
// MaxBigCells caps the cells per axis of the big-lattice cases (the race-detector
// build of C13, ten times slower, sets it lower).
var MaxBigCells = 112

func bigLattice(work *choice.Source, shape *simsolid.Shape, v *variant, lo, hi int, force bool) bool {
	if !force && !work.Chance(1, 16) {
		return false
	}
	n := lo + work.Intn(hi-lo+1)
	if n > MaxBigCells {
		n = MaxBigCells // (the draw is made either way: tapes keep their meaning)
	}
	a, b := shape.Bounds()
	ext := 0.0
	for i := 0; i < shape.Dim; i++ {
		ext = math.Max(ext, b[i]-a[i])
	}
	shape.Delta = ext / float64(n)
	if shape.Dim == 3 && work.Chance(1, 3) {
		// a plate: the big extent stays, one axis (mostly z, the slab axis of the
		// marching-cubes cache) shrinks to 1..7 cells - fewer slabs than workers
		axis := []int{2, 2, 2, 0, 1}[work.Intn(5)]
		shape.Flatten(axis, shape.Delta*(0.7+6*work.Float()))
	}
	v.Knobs = map[string]int{"cm.itemStride": 257, "auto.stride": 257}
	v.YieldEvery = 0
	if work.Chance(1, 3) {
		v.Workers = 17 + work.Intn(96) // more workers than lattice layers of a usual volume
	}
	return true
}

// ---------------------------------------------------------------- algorithms

// forceC2F (package variable set by the "mcc2f" algo for the duration of one case):
// big lattice, coarse-to-fine with a ratio of 8..24 and thin plates between the scales.
var forceC2F bool

func runMC(r *runner, work *choice.Source, search, forceFlat bool) (fs []Finding) {
	forceTall := false
	if forceFlat && work.Chance(1, 2) {
		forceFlat, forceTall = false, true
	}
	shape := simsolid.Gen(work, 3)
	iters := 0
	if search {
		iters = 1 + work.Intn(5)
	}
	v := genVariant(work)
	kind := work.Intn(6)
	extra := uint64(pick(work, 0, 2, 5))
	bigK := 2 + work.Intn(5)
	salt := work.U64()
	big := bigLattice(work, shape, &v, 64, 112, forceFlat || forceTall || forceC2F)
	if forceC2F {
		kind = 4
	}
	if forceTall {
		// the other extreme: at least 66 lattice layers in z and at least as many
		// workers (GOMAXPROCS beyond 64), plain pipelined path
		lo, hi := shape.Bounds()
		// a column: x and y squeezed to a third of the height, so that the many layers
		// do not come with millions of cells
		shape.Flatten(0, (hi[2]-lo[2])*0.33)
		shape.Flatten(1, (hi[2]-lo[2])*0.33)
		shape.Delta = (hi[2] - lo[2]) / float64(66+work.Intn(40))
		v.Workers = 64 + work.Intn(64)
		if work.Chance(3, 4) {
			kind = 0
		}
		r.st.probe("mc.tall_many_workers")
	}
	if forceFlat {
		// the dedicated plate kind: a wide slab that is only a few lattice layers
		// thick in z, meshed by the plain (z-slab pipelined) path with many workers -
		// fewer slabs than workers
		lo, hi := shape.Bounds()
		if hi[2]-lo[2] > 6*shape.Delta {
			shape.Flatten(2, shape.Delta*(0.7+4*work.Float()))
		}
		v.Workers = 6 + work.Intn(11)
		if work.Chance(3, 4) {
			kind = 0
		}
		r.st.probe("mc.flat_plate")
	}
	if big {
		r.refKnobs = map[string]int{"cm.itemStride": 257, "auto.stride": 257}
		r.st.probe("mc.big_lattice")
		if kind == 4 && (forceC2F || work.Chance(2, 3)) {
			// a fine lattice leaves room for large coarse-to-fine ratios, with a thin
			// positive plate or two added so that there are features between the scales
			bigK = 8 + work.Intn(17)
			lo, hi := shape.Bounds()
			for i := 0; i < 1+work.Intn(2); i++ {
				p := simsolid.Prim{}
				axis := work.Intn(3)
				for a := 0; a < 3; a++ {
					p.Min[a], p.Max[a] = lo[a]+0.05*(hi[a]-lo[a]), hi[a]-0.05*(hi[a]-lo[a])
				}
				c := lo[axis] + (0.2+0.6*work.Float())*(hi[axis]-lo[axis])
				if forceC2F {
					// on a plane of the coarse lattice (origin: lower bound minus one coarse
					// step), so that the coarse pass does see the plate however thin it is
					// and the case stays inside "all coarse spacings that still see every
					// feature"; whatever lies between the scales may not lose it again
					bigD := shape.Delta * float64(bigK)
					k := math.Round((c - (lo[axis] - bigD)) / bigD)
					c = lo[axis] - bigD + k*bigD
				}
				th := shape.Delta * (1.2 + 4*work.Float())
				p.Min[axis], p.Max[axis] = c-th/2, c+th/2
				// the plate sticks out of the main body on one side
				o := (axis + 1) % 3
				p.Max[o] = hi[o] + (0.3+0.5*work.Float())*(hi[o]-lo[o])
				shape.Prims = append(shape.Prims, p)
			}
		}
	}
	r.st.Workers = v.Workers
	refSolid := &simsolid.Solid3{S: shape, Salt: salt}
	var refMesh *model3d.Mesh
	if f := r.ref(func() {
		if search {
			refMesh = model3d.MarchingCubesSearch(refSolid, shape.Delta, iters)
		} else {
			refMesh = model3d.MarchingCubes(refSolid, shape.Delta)
		}
	}); f != nil {
		return []Finding{*f}
	}
	want := canon3(refMesh)
	r.st.Faces = len(want)
	cnt := &simsolid.Counter{}
	solid := &simsolid.Solid3{S: shape, Salt: salt, YieldEvery: v.YieldEvery, Cnt: cnt}
	names := []string{"plain", "filter-true", "filter-exact", "filter-exact+extra", "c2f", "filter-exact"}
	name := names[kind]
	if !search && kind == 4 {
		name = "filter-exact"
	}
	if search {
		r.st.MapDep = "mcSearch walks Mesh.VertexSlice(), whose order is the iteration order of the vertex index (a Go map)"
	}
	r.st.Desc = fmt.Sprintf("mc search=%v iters=%d delta=%.4f big=%v prims=%d aligned=%v variant=%s %s", search, iters, shape.Delta, big, len(shape.Prims), shape.Aligned, name, v)
	if name == "c2f" {
		// a coarse spacing is admissible only if the coarse mesh "sees every
		// feature": every vertex of the fine surface must lie within the
		// documented dilation 2*sqrt(3)*bigDelta of the coarse mesh.
		big := shape.Delta * float64(bigK)
		var coarse *model3d.Mesh
		if f := r.ref(func() { coarse = model3d.MarchingCubesSearch(refSolid, big, iters) }); f != nil {
			return []Finding{*f}
		}
		if coarse.NumTriangles() == 0 {
			if len(want) != 0 {
				r.st.Discarded = "c2f: coarse mesh empty"
				return nil
			}
		} else {
			sdf := model3d.MeshToSDF(coarse)
			lim := 2 * big * math.Sqrt(3) * (1 - 1e-9)
			ok := true
			for _, p := range refMesh.VertexSlice() {
				if math.Abs(sdf.SDF(p)) > lim {
					ok = false
					break
				}
			}
			if !ok {
				r.st.Discarded = "c2f: coarse spacing misses a feature"
				return nil
			}
		}
		r.st.probe(fmt.Sprintf("c2f.ratio=%d", bigK))
	}
	var got *model3d.Mesh
	if f := r.sim(v, func() {
		switch name {
		case "plain":
			if search {
				got = model3d.MarchingCubesSearch(solid, shape.Delta, iters)
			} else {
				got = model3d.MarchingCubes(solid, shape.Delta)
			}
		case "filter-true":
			got = mcFilter(solid, func(*model3d.Rect) bool { return true }, shape.Delta, iters, search)
		case "filter-exact":
			got = mcFilter(solid, solid.Filter3(0), shape.Delta, iters, search)
		case "filter-exact+extra":
			got = mcFilter(solid, solid.Filter3(extra), shape.Delta, iters, search)
		case "c2f":
			got = model3d.MarchingCubesC2F(solid, shape.Delta*float64(bigK), shape.Delta, 0, iters)
		}
	}); f != nil {
		return []Finding{*f}
	}
	r.st.Calls = cnt.Calls
	if d := diff(want, canon3(got)); d != "" {
		fs = append(fs, Finding{"mc|" + name, fmt.Sprintf("%s: %s", r.st.Desc, d)})
	}
	return
}

func mcFilter(s model3d.Solid, f func(*model3d.Rect) bool, delta float64, iters int, search bool) *model3d.Mesh {
	if search {
		return model3d.MarchingCubesSearchFilter(s, f, delta, iters)
	}
	return model3d.MarchingCubesFilter(s, f, delta)
}

func runDC(r *runner, work *choice.Source, repair, forceBig bool) (fs []Finding) {
	shape := simsolid.Gen(work, 3)
	v := genVariant(work)
	clip := work.Chance(1, 2)
	noJitter := work.Chance(1, 4)
	interior := work.Chance(1, 3)
	mode := model3d.DualContouringTriangleMode(work.Intn(3))
	salt := work.U64()
	lo, hi := shape.Bounds()
	nx := int(math.Round((hi[0]-lo[0]+2*shape.Delta)/shape.Delta)) + 1
	ny := int(math.Round((hi[1]-lo[1]+2*shape.Delta)/shape.Delta)) + 1
	nz := int(math.Round((hi[2]-lo[2]+2*shape.Delta)/shape.Delta)) + 1
	rows := 4 + work.Intn(nz)
	buf := rows * nx * ny
	switch work.Intn(5) {
	case 0:
		buf = 1
	case 1:
		buf = 0
	}
	maxGos := work.Intn(10)
	if forceBig {
		// the dedicated big-lattice kind: whole volume in one window most of the
		// time, interior points collected, few enough workers that one worker
		// handles thousands of active edges in a pass
		interior = !work.Chance(1, 4)
		if work.Chance(3, 4) {
			buf = 0
		}
		v.Workers = 1 + work.Intn(6)
		if maxGos > 6 {
			maxGos = 0
		}
	}
	if oldNz := nz; bigLattice(work, shape, &v, 48, 80, forceBig) {
		nx = int(math.Round((hi[0]-lo[0]+2*shape.Delta)/shape.Delta)) + 1
		ny = int(math.Round((hi[1]-lo[1]+2*shape.Delta)/shape.Delta)) + 1
		nz = int(math.Round((hi[2]-lo[2]+2*shape.Delta)/shape.Delta)) + 1
		rows = 4 + (rows-4)*nz/oldNz
		if buf > 1 {
			buf = rows * nx * ny
		}
		r.refKnobs = map[string]int{"cm.itemStride": 257, "auto.stride": 257}
		r.st.probe("dc.big_lattice")
	}
	// (drawn last) non-default options of the surface estimator that every worker
	// shares.  Bisection counts and epsilons keep the estimator a pure function, so
	// the exact comparison stands; random-search normals draw from the global random
	// source in schedule order, so for them only termination (and, under C13, the
	// race detector) judges the run.
	est := model3d.SolidSurfaceEstimator{}
	randomNormals := false
	if work.Chance(1, 4) {
		est.BisectCount = []int{0, 1, 3, 40}[work.Intn(4)]
		est.NormalSamples = []int{0, 8, 40}[work.Intn(3)]
		est.NormalBisectEpsilon = []float64{0, 1e-3, 1e-6}[work.Intn(3)]
		if work.Chance(1, 3) {
			est.RandomSearchNormals, randomNormals = true, true
			est.NormalNoiseEpsilon = []float64{0, 1e-3}[work.Intn(2)]
			r.st.probe("dc.random_search_normals")
		}
	}
	// ... and the remaining numeric options of the contouring itself (pure parameters)
	var cubeMargin, svEps, l2 float64
	if work.Chance(1, 4) {
		cubeMargin = []float64{0, 0.1, 0.3}[work.Intn(3)]
		svEps = []float64{0, 0.01, 0.3}[work.Intn(3)]
		l2 = []float64{0, 0.1, 2}[work.Intn(3)]
	}
	r.st.Workers = v.Workers
	mk := func(s model3d.Solid, bufSize, gos int) *model3d.DualContouring {
		e := est
		e.Solid = s
		return &model3d.DualContouring{S: e, Delta: shape.Delta, Repair: repair, Clip: clip,
			NoJitter: noJitter, TriangleMode: mode, BufferSize: bufSize, MaxGos: gos,
			CubeMargin: cubeMargin, SingularValueEpsilon: svEps, L2Penalty: l2}
	}
	bufRows := nz
	if buf != 0 {
		bufRows = buf / (nx * ny)
		if bufRows < 4 {
			bufRows = 4
		}
		if bufRows > nz {
			bufRows = nz
		}
	}
	shifts := 0
	if bufRows < nz {
		shifts = (nz - bufRows + bufRows - 3) / (bufRows - 2)
	}
	if repair {
		r.st.MapDep = "DualContouring Repair walks Go maps (listed known finding dc|repair-repeat: the repaired faces themselves differ between runs)"
	}
	r.st.Desc = fmt.Sprintf("dc repair=%v clip=%v nojitter=%v interior=%v mode=%d delta=%.4f lattice=%dx%dx%d buffer=%d (rows %d, ~%d shifts) maxgos=%d %s",
		repair, clip, noJitter, interior, mode, shape.Delta, nx, ny, nz, buf, bufRows, shifts, maxGos, v)
	if shifts >= 2 {
		r.st.probe("dc.window_shifted>=2")
	} else if shifts == 1 {
		r.st.probe("dc.window_shifted=1")
	}
	if bufRows == 4 {
		r.st.probe("dc.minimum_buffer")
	}
	refSolid := &simsolid.Solid3{S: shape, Salt: salt}
	var refMesh *model3d.Mesh
	var refPts []model3d.Coord3D
	refBuf, refGos := 1<<30, 1
	if repair {
		// Repair=true is compared only against a repeat of the very same configuration
		refBuf, refGos = buf, maxGos
	}
	if f := r.ref(func() {
		if interior {
			refMesh, refPts = mk(refSolid, refBuf, refGos).MeshInterior()
		} else {
			refMesh = mk(refSolid, refBuf, refGos).Mesh()
		}
	}); f != nil {
		if !strings.HasPrefix(f.Sig, "panic|") {
			return []Finding{*f}
		}
		// The reference configuration itself panics: this solid is outside what the
		// routine can mesh at all (seen: Repair meets two vertices one ulp apart,
		// "invalid triangle count").  That is a defect of its own kind, but not a
		// dependence on the configuration - unless the configuration under test
		// does return a mesh.  So the variant still runs, and must panic alike.
		if repair {
			v.Workers = 1
		}
		vf := r.sim(v, func() {
			if interior {
				mk(&simsolid.Solid3{S: shape, Salt: salt, YieldEvery: v.YieldEvery}, buf, maxGos).MeshInterior()
			} else {
				mk(&simsolid.Solid3{S: shape, Salt: salt, YieldEvery: v.YieldEvery}, buf, maxGos).Mesh()
			}
		})
		if vf != nil && vf.Sig == f.Sig {
			r.st.Discarded = "dc: the reference configuration and the configuration under test panic alike (" + f.Sig + ")"
			r.st.probe("dc.panics_in_every_configuration: " + f.Sig)
			return nil
		}
		if repair {
			// (Repair's path through the mesh follows Go map order - the listed known
			// finding - so whether it reaches the failing spot may differ between two runs)
			r.st.Discarded = "dc: Repair panics in one run and not in the other (map order, see dc|repair-repeat)"
			r.st.probe("dc.repair_panic_depends_on_map_order")
			return nil
		}
		got := "returns a mesh"
		if vf != nil {
			got = vf.Sig
		}
		return []Finding{{"dc|panic-depends-on-configuration", fmt.Sprintf("%s: the reference configuration panics (%s) but the configuration under test %s\n%s", r.st.Desc, f.Sig, got, f.Msg)}}
	}
	want := canon3(refMesh)
	r.st.Faces = len(want)
	cnt := &simsolid.Counter{}
	solid := &simsolid.Solid3{S: shape, Salt: salt, YieldEvery: v.YieldEvery, Cnt: cnt}
	var got *model3d.Mesh
	var gotPts []model3d.Coord3D
	if repair {
		v.Workers = 1
	}
	if f := r.sim(v, func() {
		if interior {
			got, gotPts = mk(solid, buf, maxGos).MeshInterior()
		} else {
			got = mk(solid, buf, maxGos).Mesh()
		}
	}); f != nil {
		if repair && strings.HasPrefix(f.Sig, "panic|") {
			// Repair=true runs the very same configuration twice.  The first run
			// returned a mesh, this one panics: the two runs differ - the listed known
			// finding (Repair's walk over Go maps decides what it meets), here to the
			// point where one of them reaches the spot where Repair gives up.
			return []Finding{{"dc|repair-repeat", fmt.Sprintf("%s: two runs of the same configuration differ: the first returns a mesh of %d faces, the second panics (%s)", r.st.Desc, refMesh.NumTriangles(), f.Sig)}}
		}
		return []Finding{*f}
	}
	r.st.Calls = cnt.Calls
	if randomNormals {
		return // vertex positions follow the random normals: nothing exact to compare
	}
	name := "dc|config"
	if repair {
		name = "dc|repair-repeat"
	}
	if d := diff(want, canon3(got)); d != "" {
		fs = append(fs, Finding{name, fmt.Sprintf("%s: %s", r.st.Desc, d)})
	}
	if interior && !repair {
		if d := diff(canonPts(refPts), canonPts(gotPts)); d != "" {
			fs = append(fs, Finding{"dc|interior", fmt.Sprintf("%s: interior points: %s", r.st.Desc, d)})
		}
	}
	// (drawn last) a DualContouring value that has been used before: one call with
	// some options set differently, then the options of this case restored and the
	// call repeated on the same value.  The faces may not depend on what the value
	// was used for earlier.
	if len(fs) == 0 && !repair && work.Chance(1, 3) {
		flip := work.Intn(7)
		var again *model3d.Mesh
		what := []string{"NoJitter flipped", "Clip flipped", "another TriangleMode", "BufferSize changed", "MaxGos changed", "Delta doubled", "MeshInterior instead of Mesh / Mesh instead of MeshInterior"}[flip]
		if f := r.sim(v, func() {
			dc := mk(solid, buf, maxGos)
			saved := *dc
			switch flip {
			case 0:
				dc.NoJitter = !dc.NoJitter
			case 1:
				dc.Clip = !dc.Clip
			case 2:
				dc.TriangleMode = (dc.TriangleMode + 1) % 3
			case 3:
				dc.BufferSize = 4*nx*ny + 7
			case 4:
				dc.MaxGos = dc.MaxGos%3 + 1
			case 5:
				dc.Delta *= 2
			}
			if interior != (flip == 6) {
				dc.MeshInterior()
			} else {
				dc.Mesh()
			}
			dc.S, dc.Delta, dc.Repair, dc.Clip, dc.NoJitter, dc.TriangleMode, dc.BufferSize, dc.MaxGos = saved.S, saved.Delta, saved.Repair, saved.Clip, saved.NoJitter, saved.TriangleMode, saved.BufferSize, saved.MaxGos
			if interior {
				again, _ = dc.MeshInterior()
			} else {
				again = dc.Mesh()
			}
		}); f != nil {
			return []Finding{*f}
		}
		r.st.probe("dc.value_used_before")
		if d := diff(want, canon3(again)); d != "" {
			fs = append(fs, Finding{"dc|reused-value", fmt.Sprintf("%s: second call on a DualContouring value that had been used with %s: %s", r.st.Desc, what, d)})
		}
	}
	return
}

func runMS(r *runner, work *choice.Source) (fs []Finding) {
	shape := simsolid.Gen(work, 2)
	shape.Delta /= 2
	iters := work.Intn(5)
	v := genVariant(work)
	kind := work.Intn(5)
	extra := uint64(pick(work, 0, 2, 5))
	bigK := 2 + work.Intn(5)
	salt := work.U64()
	r.st.Workers = v.Workers
	refSolid := &simsolid.Solid2{S: shape, Salt: salt}
	var refMesh *model2d.Mesh
	if f := r.ref(func() { refMesh = model2d.MarchingSquaresSearch(refSolid, shape.Delta, iters) }); f != nil {
		return []Finding{*f}
	}
	want := canon2(refMesh)
	r.st.Faces = len(want)
	cnt := &simsolid.Counter{}
	solid := &simsolid.Solid2{S: shape, Salt: salt, YieldEvery: v.YieldEvery, Cnt: cnt}
	name := []string{"plain", "filter-true", "filter-exact", "filter-exact+extra", "c2f"}[kind]
	if iters > 0 {
		r.st.MapDep = "msSearch walks Mesh.VertexSlice(), whose order is the iteration order of the vertex index (a Go map)"
	}
	r.st.Desc = fmt.Sprintf("ms iters=%d delta=%.4f prims=%d aligned=%v variant=%s %s", iters, shape.Delta, len(shape.Prims), shape.Aligned, name, v)
	if name == "c2f" {
		big := shape.Delta * float64(bigK)
		var coarse *model2d.Mesh
		if f := r.ref(func() { coarse = model2d.MarchingSquaresSearch(refSolid, big, iters) }); f != nil {
			return []Finding{*f}
		}
		if coarse.NumSegments() == 0 {
			if len(want) != 0 {
				r.st.Discarded = "c2f: coarse mesh empty"
				return nil
			}
		} else {
			sdf := model2d.MeshToSDF(coarse)
			lim := 2 * big * math.Sqrt2 * (1 - 1e-9)
			for _, p := range refMesh.VertexSlice() {
				if math.Abs(sdf.SDF(p)) > lim {
					r.st.Discarded = "c2f: coarse spacing misses a feature"
					return nil
				}
			}
		}
		r.st.probe(fmt.Sprintf("c2f.ratio=%d", bigK))
	}
	var got *model2d.Mesh
	if f := r.sim(v, func() {
		switch name {
		case "plain":
			got = model2d.MarchingSquaresSearch(solid, shape.Delta, iters)
		case "filter-true":
			got = model2d.MarchingSquaresSearchFilter(solid, func(*model2d.Rect) bool { return true }, shape.Delta, iters)
		case "filter-exact":
			got = model2d.MarchingSquaresSearchFilter(solid, solid.Filter2(0), shape.Delta, iters)
		case "filter-exact+extra":
			got = model2d.MarchingSquaresSearchFilter(solid, solid.Filter2(extra), shape.Delta, iters)
		case "c2f":
			got = model2d.MarchingSquaresC2F(solid, shape.Delta*float64(bigK), shape.Delta, 0, iters)
		}
	}); f != nil {
		return []Finding{*f}
	}
	r.st.Calls = cnt.Calls
	if d := diff(want, canon2(got)); d != "" {
		fs = append(fs, Finding{"ms|" + name, fmt.Sprintf("%s: %s", r.st.Desc, d)})
	}
	return
}

func pixDiff(a, b *image.Gray) string {
	if a.Bounds() != b.Bounds() {
		return fmt.Sprintf("bounds %v vs %v", a.Bounds(), b.Bounds())
	}
	n := 0
	ex := ""
	for y := a.Bounds().Min.Y; y < a.Bounds().Max.Y; y++ {
		for x := a.Bounds().Min.X; x < a.Bounds().Max.X; x++ {
			if a.GrayAt(x, y) != b.GrayAt(x, y) {
				if n == 0 {
					ex = fmt.Sprintf("pixel (%d,%d): unfiltered %d, filtered %d", x, y, a.GrayAt(x, y).Y, b.GrayAt(x, y).Y)
				}
				n++
			}
		}
	}
	if n == 0 {
		return ""
	}
	return fmt.Sprintf("%d of %d pixels differ; %s", n, a.Bounds().Dx()*a.Bounds().Dy(), ex)
}

func runRaster(r *runner, work *choice.Source) (fs []Finding) {
	shape := simsolid.Gen(work, 2)
	v := genVariant(work)
	salt := work.U64()
	kind := work.Intn(4)
	extra := uint64(pick(work, 0, 2, 5))
	ras := &model2d.Rasterizer{Scale: 6 + 30*work.Float(), Subsamples: pick(work, 0, 1, 2, 3, 5, 16, 17)}
	if work.Chance(1, 3) {
		// a canvas that crops or pads the solid
		lo, hi := shape.Bounds()
		pad := func() float64 { return (work.Float() - 0.6) * 0.5 }
		b0, b1 := model2d.XY(lo[0]-pad(), lo[1]-pad()), model2d.XY(hi[0]+pad(), hi[1]+pad())
		// (a canvas must have a positive extent; cropping a small shape from both
		// sides can invert it, which is an invalid argument, not a configuration)
		if b1.X-b0.X >= 0.1 && b1.Y-b0.Y >= 0.1 {
			ras.Bounds = model2d.NewRect(b0, b1)
		}
	}
	// only for the solid paths: an even-odd collider test at points exactly in line
	// with mesh vertices is outside "general position" (C07), not a filter effect
	dyadic := kind < 2 && work.Chance(1, 3)
	if dyadic {
		// (drawn after everything else so that recorded tapes keep their meaning)
		// closed boxes on a dyadic grid, power-of-two scale, dyadic canvas that pads
		// or crops: pixel edges, tile edges and faces of the solid coincide exactly
		shape = simsolid.GenDyadic2(work)
		ras.Scale = float64(pick(work, 4, 8, 16, 2))
		ras.Bounds = nil
		if work.Chance(2, 3) {
			lo, hi := shape.Bounds()
			q := func(span int) float64 { return float64(work.Intn(span)-span/3) / 8 }
			b0, b1 := model2d.XY(lo[0]-q(9), lo[1]-q(9)), model2d.XY(hi[0]+q(9), hi[1]+q(9))
			if b1.X-b0.X >= 0.25 && b1.Y-b0.Y >= 0.25 {
				ras.Bounds = model2d.NewRect(b0, b1)
			}
		}
		r.st.probe("raster.dyadic_closed")
	}
	if kind == 3 && work.Chance(1, 2) {
		ras.LineWidth = []float64{0.5, 2, 5}[work.Intn(3)]
	}
	r.st.Workers = v.Workers
	refSolid := &simsolid.Solid2{S: shape, Salt: salt}
	solid := &simsolid.Solid2{S: shape, Salt: salt, YieldEvery: v.YieldEvery * 8}
	name := []string{"filter-exact", "filter-exact+extra", "collider-solid", "collider-lines"}[kind]
	r.st.Desc = fmt.Sprintf("raster scale=%.2f subsamples=%d bounds=%v dyadic=%v variant=%s %s", ras.Scale, ras.Subsamples, ras.Bounds != nil, dyadic, name, v)
	var want, got *image.Gray
	var coll model2d.Collider
	if kind >= 2 {
		var m *model2d.Mesh
		if f := r.ref(func() { m = model2d.MarchingSquaresSearch(refSolid, shape.Delta/2, 3) }); f != nil {
			return []Finding{*f}
		}
		if m.NumSegments() == 0 {
			r.st.Discarded = "raster: empty outline"
			return nil
		}
		coll = model2d.MeshToCollider(m)
	}
	if f := r.ref(func() {
		switch name {
		case "filter-exact", "filter-exact+extra":
			want = ras.RasterizeSolid(refSolid)
		case "collider-solid":
			want = ras.RasterizeSolid(model2d.NewColliderSolid(coll))
		case "collider-lines":
			lw := ras.LineWidth
			if lw == 0 {
				lw = model2d.RasterizerDefaultLineWidth
			}
			sc := ras.Scale
			want = ras.RasterizeSolid(model2d.NewColliderSolidHollow(coll, 0.5*lw/sc))
		}
	}); f != nil {
		return []Finding{*f}
	}
	if f := r.sim(v, func() {
		switch name {
		case "filter-exact":
			got = ras.RasterizeSolidFilter(solid, solid.Filter2(0))
		case "filter-exact+extra":
			got = ras.RasterizeSolidFilter(solid, solid.Filter2(extra))
		case "collider-solid":
			got = ras.RasterizeColliderSolid(coll)
		case "collider-lines":
			got = ras.RasterizeCollider(coll)
		}
	}); f != nil {
		return []Finding{*f}
	}
	r.st.Faces = want.Bounds().Dx() * want.Bounds().Dy()
	if d := pixDiff(want, got); d != "" {
		sig := "raster|" + name
		if kind >= 2 {
			// Is the difference the filter's doing, or an isolated glitch of the even-odd
			// containment test itself (a sample whose ray passes exactly through a mesh
			// vertex is miscounted: colliders promise correct counts only for rays in
			// general position)?  Render unfiltered once more with every sample point
			// nudged by a billionth: if that agrees with the filtered image at every
			// pixel that differed, no boundary is near those pixels and the unfiltered
			// image, not the filter, was off.
			var base model2d.Solid = model2d.NewColliderSolid(coll)
			if name == "collider-lines" {
				lw := ras.LineWidth
				if lw == 0 {
					lw = model2d.RasterizerDefaultLineWidth
				}
				base = model2d.NewColliderSolidHollow(coll, 0.5*lw/ras.Scale)
			}
			for _, eps := range []float64{1e-9, -1e-9} {
				var alt *image.Gray
				if f := r.ref(func() { alt = ras.RasterizeSolid(nudged{base, eps}) }); f != nil {
					break
				}
				agree := alt.Bounds() == got.Bounds()
				for y := want.Bounds().Min.Y; agree && y < want.Bounds().Max.Y; y++ {
					for x := want.Bounds().Min.X; x < want.Bounds().Max.X; x++ {
						if want.GrayAt(x, y) != got.GrayAt(x, y) && alt.GrayAt(x, y) != got.GrayAt(x, y) {
							agree = false
							break
						}
					}
				}
				if agree {
					sig += "|containment-glitch"
					d += " (rendering unfiltered with all samples nudged by 1e-9 gives the filtered values at these pixels: an isolated miscount of the even-odd containment test, not a boundary the filter skipped)"
					break
				}
			}
		}
		fs = append(fs, Finding{sig, fmt.Sprintf("%s: %s", r.st.Desc, d)})
	}
	return
}

// nudged shifts every query point of a solid by a tiny amount.
type nudged struct {
	model2d.Solid
	eps float64
}

func (n nudged) Contains(c model2d.Coord) bool {
	return n.Solid.Contains(model2d.XY(c.X+n.eps, c.Y+n.eps*0.7))
}

var Algos = []string{"mc", "mcsearch", "dc", "ms", "raster", "mc", "dc", "dcrepair",
	"mc", "mcsearch", "dc", "ms", "raster", "mc", "dc", "dcrepair",
	"mc", "mcsearch", "dc", "ms", "mcc2f", "mcflat", "dc", "dcbig"}

func RunCase(t *testing.T, c *Case, work, sched *choice.Source, st *Stats) (fs []Finding) {
	// the global random source is part of the simulation (random-search normals draw
	// from it in schedule order)
	rand.Seed(20260929)
	r := &runner{t: t, st: st, sched: sched}
	defer func() {
		c.Work, c.Sched, c.Pol = work.Tape(), sched.Tape(), sched.AuxTape()
		runtime.GOMAXPROCS(16)
		if len(r.faultNotes) > 0 {
			for i := range fs {
				fs[i].Msg += fmt.Sprintf(" [injected: %s]", strings.Join(r.faultNotes, "; "))
			}
		}
	}()
	switch c.Algo {
	case "mcc2f":
		forceC2F = true
		defer func() { forceC2F = false }()
		return runMC(r, work, true, false)
	case "mc":
		return runMC(r, work, false, false)
	case "mcflat":
		return runMC(r, work, false, true)
	case "mcsearch":
		return runMC(r, work, true, false)
	case "dc":
		return runDC(r, work, false, false)
	case "dcbig":
		return runDC(r, work, false, true)
	case "dcrepair":
		return runDC(r, work, true, false)
	case "ms":
		return runMS(r, work)
	case "raster":
		return runRaster(r, work)
	}
	panic("unknown algo " + c.Algo)
}

var _ = wproto.Hash
