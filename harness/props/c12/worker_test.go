//go:build verif

//go:debug randseednop=0

package c12

import (
	"encoding/json"
	"fmt"
	"testing"
	"time"

	"verif/harness/choice"
	"verif/harness/simsched"
	"verif/harness/wproto"
)

func runOne(t *testing.T, c *Case, work, sched *choice.Source, out *wproto.Out, id int) {
	out.Begin(id)
	out.SetOnStuck(func() {
		c.Work, c.Sched, c.Pol = work.Tape(), sched.Tape(), sched.AuxTape()
		sig, msg := out.StuckWhat()
		out.Finding(id, sig, "livelock", msg, c)
		out.End(id, []string{sig})
		out.Count("evaluations", 1)
		out.Finish("restart", id+1)
	})
	st := &Stats{}
	fs := RunCase(t, c, work, sched, st)
	var sigs []string
	seen := map[string]bool{}
	for _, f := range fs {
		if !seen[f.Sig] {
			seen[f.Sig] = true
			sigs = append(sigs, f.Sig)
			out.Finding(id, f.Sig, "mismatch", f.Msg, c)
		}
	}
	faces, wsigs := st.Faces, sigs
	if c.Algo == "dcrepair" {
		// known finding: the repaired face set is map-order dependent, so the
		// repeat-run mismatch itself comes and goes
		faces, wsigs = -1, nil
		for _, s := range sigs {
			if s != "dc|repair-repeat" {
				wsigs = append(wsigs, s)
			}
		}
	}
	out.Trace(id, st.MapDep, []any{st.TraceHashes, st.Steps, st.Preempt, st.Calls, st.Tasks}, []any{wsigs, faces, st.Workers, st.Desc, st.Discarded})
	out.End(id, sigs)
	out.Count("evaluations", 1)
	out.Count("algo."+c.Algo, 1)
	out.Count("sim_steps", int64(st.Steps))
	out.Count("preemptions", int64(st.Preempt))
	out.Count("solid_calls", int64(st.Calls))
	if st.ProcsFaults > 0 {
		out.Count("fault.gomaxprocs_changed_mid_call", int64(st.ProcsFaults))
	}
	out.Count(fmt.Sprintf("workers.%02d", st.Workers), 1)
	if st.Tasks > int(out.Counters["max_tasks"]) {
		out.Counters["max_tasks"] = int64(st.Tasks)
	}
	if st.MaxRunnable > int(out.Counters["max_runnable"]) {
		out.Counters["max_runnable"] = int64(st.MaxRunnable)
	}
	for k, v := range st.Probes {
		out.Count("probe."+k, int64(v))
	}
	if st.Discarded != "" {
		out.Count("discarded", 1)
		out.Count("probe.discarded: "+st.Discarded, 1)
	} else {
		for _, h := range st.TraceHashes {
			out.SetAdd("distinct_interleavings", h)
		}
		if st.Preempt > 0 && st.Faces > 0 {
			b, _ := json.Marshal(c)
			out.SetAdd("distinct_nontrivial", wproto.Hash(b))
		}
	}
	out.SampleKind(c.Algo, map[string]any{"case": id, "what": st.Desc, "faces": st.Faces, "sched_steps": st.Steps, "preemptions": st.Preempt, "tasks": st.Tasks}, 2, 12)
	out.Remember(c)
	simsched.FlushTotals(out.Count, func(name string, n int64) {
		if n > out.Counters[name] {
			out.Counters[name] = n
		}
	})
	out.Tick(64)
}

func TestWorker(t *testing.T) {
	job, err := wproto.LoadJob()
	if err != nil {
		t.Skip("not run by the driver: ", err)
	}
	out, err := wproto.OpenOut()
	if err != nil {
		t.Fatal(err)
	}
	out.StuckFlag = &simsched.Stuck
	out.StallProbe = simsched.StallProbe
	// this check leaves the scheduling points at atomic operations off (set here, not in
	// a package init: the C13 worker imports this package and wants them on)
	simsched.AtomicYields = false
	kinds := job.KindList(Algos)
	mk := func(i int) (*Case, *choice.Source, *choice.Source) {
		c := &Case{Property: "C12", Engine: "simsched", Algo: kinds[i%len(kinds)]}
		return c, choice.New(job.Seed, fmt.Sprint("c12-work-", i)), choice.New(job.Seed, fmt.Sprint("c12-sched-", i))
	}
	out.Watch(120 * time.Second)
	switch job.Mode {
	case "replay":
		for i, raw := range job.Cases {
			if i < job.Start {
				continue
			}
			var c Case
			if err := json.Unmarshal(raw, &c); err != nil {
				t.Fatal(err)
			}
			if c.Work == nil && c.Sched == nil && c.Seed != 0 {
				runOne(t, &c, choice.New(c.Seed, fmt.Sprint("c12-work-", c.Index)), choice.New(c.Seed, fmt.Sprint("c12-sched-", c.Index)), out, i)
				continue
			}
			runOne(t, &c, choice.Replay(c.Work), choice.ReplayAux(c.Sched, c.Pol), out, i)
		}
		out.Finish("done", len(job.Cases))
	case "dump":
		var want int
		fmt.Sscan(job.Params["case"], &want)
		c, _, _ := mk(want)
		c.Seed, c.Index = job.Seed, want
		out.Emit(map[string]any{"t": "dump", "replay": c})
	case "explore":
		deadline := time.Now().Add(time.Duration(job.BudgetS * float64(time.Second)))
		for i := job.Start; (job.MaxCases == 0 || i < job.MaxCases) && time.Now().Before(deadline); i++ {
			if i%job.NShards != job.Shard {
				continue
			}
			c, w, s := mk(i)
			runOne(t, c, w, s, out, i)
			if out.ShouldRecycle() {
				out.Count("recycled_workers", 1)
				out.Finish("restart", i+1)
				return
			}
		}
		out.Finish("done", -1)
	}
}
