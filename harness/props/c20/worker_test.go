//go:build verif

//go:debug randseednop=0

package c20

import (
	"encoding/json"
	"fmt"
	"math/rand"
	"testing"
	"time"

	"verif/harness/choice"
	"verif/harness/simsched"
	"verif/harness/wproto"
)

func runOne(t *testing.T, c *Case, work, sched *choice.Source, out *wproto.Out, id int) {
	out.Begin(id)
	out.SetOnStuck(func() {
		c.Work, c.Sched, c.Pol = work.Tape(), sched.Tape(), sched.AuxTape()
		sig, msg := out.StuckWhat()
		out.Finding(id, sig, "livelock", msg, c)
		out.End(id, []string{sig})
		out.Count("evaluations", 1)
		out.Finish("restart", id+1)
	})
	st := &Stats{}
	rand.Seed(20260928) // global math/rand: per-worker generators are seeded from it in schedule order
	fs := RunCase(t, c, work, sched, st)
	var sigs []string
	seen := map[string]bool{}
	for _, f := range fs {
		if !seen[f.Sig] {
			seen[f.Sig] = true
			sigs = append(sigs, f.Sig)
			out.Finding(id, f.Sig, "mismatch", f.Msg, c)
		}
	}
	out.Trace(id, "", []any{st.TraceHash, st.Steps, st.Preempt, st.Pixels, st.Samples, st.EarlyStops}, []any{sigs, st.Workers, st.Desc})
	out.End(id, sigs)
	out.Count("evaluations", 1)
	out.Count("nested_renders", int64(st.Nested))
	out.Count("sim_steps", int64(st.Steps))
	out.Count("preemptions", int64(st.Preempt))
	out.Count("pixels", int64(st.Pixels))
	out.Count("samples", int64(st.Samples))
	out.Count("early_stopped_pixels", int64(st.EarlyStops))
	out.Count(fmt.Sprintf("workers.%02d", st.Workers), 1)
	for k, v := range st.Probes {
		out.Count("probe."+k, int64(v))
	}
	out.SetAdd("distinct_interleavings", st.TraceHash)
	if st.Preempt > 0 {
		b, _ := json.Marshal(c)
		out.SetAdd("distinct_nontrivial", wproto.Hash(b))
	}
	if id%41 == 0 {
		out.Sample(map[string]any{"case": id, "what": st.Desc, "sched_steps": st.Steps, "preemptions": st.Preempt, "samples": st.Samples, "early_stopped_pixels": st.EarlyStops}, 10)
	}
	out.Remember(c)
	simsched.FlushTotals(out.Count, func(name string, n int64) {
		if n > out.Counters[name] {
			out.Counters[name] = n
		}
	})
	out.Tick(64)
}

func TestWorker(t *testing.T) {
	job, err := wproto.LoadJob()
	if err != nil {
		t.Skip("not run by the driver: ", err)
	}
	out, err := wproto.OpenOut()
	if err != nil {
		t.Fatal(err)
	}
	out.StuckFlag = &simsched.Stuck
	out.StallProbe = simsched.StallProbe
	// this check leaves the scheduling points at atomic operations off (set here, not in
	// a package init: the C13 worker imports this package and wants them on)
	simsched.AtomicYields = false
	out.Watch(300 * time.Second)
	mk := func(i int) (*Case, *choice.Source, *choice.Source) {
		c := &Case{Property: "C20", Engine: "simsched"}
		return c, choice.New(job.Seed, fmt.Sprint("c20-work-", i)), choice.New(job.Seed, fmt.Sprint("c20-sched-", i))
	}
	switch job.Mode {
	case "replay":
		for i, raw := range job.Cases {
			if i < job.Start {
				continue
			}
			var c Case
			if err := json.Unmarshal(raw, &c); err != nil {
				t.Fatal(err)
			}
			if c.Work == nil && c.Sched == nil && c.Seed != 0 {
				runOne(t, &c, choice.New(c.Seed, fmt.Sprint("c20-work-", c.Index)), choice.New(c.Seed, fmt.Sprint("c20-sched-", c.Index)), out, i)
				continue
			}
			runOne(t, &c, choice.Replay(c.Work), choice.ReplayAux(c.Sched, c.Pol), out, i)
		}
		out.Finish("done", len(job.Cases))
	case "dump":
		var want int
		fmt.Sscan(job.Params["case"], &want)
		c, _, _ := mk(want)
		c.Seed, c.Index = job.Seed, want
		out.Emit(map[string]any{"t": "dump", "replay": c})
	case "explore":
		deadline := time.Now().Add(time.Duration(job.BudgetS * float64(time.Second)))
		for i := job.Start; (job.MaxCases == 0 || i < job.MaxCases) && time.Now().Before(deadline); i++ {
			if i%job.NShards != job.Shard {
				continue
			}
			c, w, s := mk(i)
			runOne(t, c, w, s, out, i)
			if out.ShouldRecycle() {
				out.Count("recycled_workers", 1)
				out.Finish("restart", i+1)
				return
			}
		}
		out.Finish("done", -1)
	}
}
