//go:build verif

// Package c20: a rendered pixel is the arithmetic mean of exactly the radiance
// samples taken for it, every pixel is rendered exactly once whatever the worker
// count and schedule, and Render returns (DESIGN.md section 4, C20).  The
// "transport" is a stub Object that records every Cast and hands out radiance
// from a per-pixel stream, so the history of samples is known exactly.
package c20

import (
	"math/rand"
	"fmt"
	"math"
	"runtime"
	"testing"

	"github.com/unixpickle/model3d/model3d"
	"github.com/unixpickle/model3d/render3d"
	"verif/harness/choice"
	_ "verif/harness/hook"
	"verif/harness/simsched"
)

type Case struct {
	Property string   `json:"property"`
	Engine   string   `json:"engine"`
	Work     []uint32 `json:"work"`
	Sched    []uint32 `json:"sched"`
	// Pol: the auxiliary tape of the schedule stream (scheduling policy, priorities)
	Pol []uint32 `json:"pol,omitempty"`
	Seed     uint64   `json:"seed,omitempty"`
	Index    int      `json:"index,omitempty"`
}

type Finding struct{ Sig, Msg string }

type Stats struct {
	Nested int // renders started from inside a pixel of the render under test
	Steps, Preempt, Tasks int
	TraceHash             string
	Workers, Pixels       int
	Samples               int
	EarlyStops            int
	Desc                  string
	Probes                map[string]int
}

func (s *Stats) probe(k string) {
	if s.Probes == nil {
		s.Probes = map[string]int{}
	}
	s.Probes[k]++
}

type sample struct {
	val render3d.Color
	gid uint64
	seq int // index in the casting goroutine's own sequence of primary casts
}

type gcount struct {
	gid uint64
	n   int
}

// castObj is the stub transport.
type castObj struct {
	origin     model3d.Coord3D
	w, h       int
	aa         float64
	dirs       map[[3]uint64]int
	uncast     func(model3d.Coord3D) (float64, float64)
	stream     int
	salt       uint64
	yieldEvery uint64
	// bounded: the object is a slab that does not contain the camera; primary rays
	// that miss its bounding box hit nothing (a renderer may cull by the bounds)
	bounded    bool
	bmin, bmax model3d.Coord3D
	missed     int
	// nested renders: for some samples Cast renders a small picture of another
	// scene before it answers (an object that shows a picture).  Render has no
	// restriction on being called from a goroutine that is itself a render worker.
	nestEvery uint64
	inner     render3d.Object
	innerCam  *render3d.Camera
	innerRef  []render3d.Color // the picture as rendered alone, before the simulation
	nested    int
	nestBad   string

	mu      simsched.Mu
	hist    [][]sample
	perG    []gcount
	unknown int
	other   int
}

func (o *castObj) Min() model3d.Coord3D {
	if o.bounded {
		return o.bmin
	}
	return model3d.XYZ(-10, -10, -10)
}
func (o *castObj) Max() model3d.Coord3D {
	if o.bounded {
		return o.bmax
	}
	return model3d.XYZ(10, 10, 10)
}

// hitsBounds: does the ray origin + t*dir, t > 0, pass through the bounding box?
// margin > 0 shrinks the box (definitely inside), margin < 0 grows it.
func (o *castObj) hitsBounds(origin, dir model3d.Coord3D, margin float64) bool {
	tmin, tmax := 0.0, math.Inf(1)
	oa, da, lo, hi := origin.Array(), dir.Array(), o.bmin.Array(), o.bmax.Array()
	for i := 0; i < 3; i++ {
		l, h := lo[i]+margin, hi[i]-margin
		if da[i] == 0 {
			if oa[i] < l || oa[i] > h {
				return false
			}
			continue
		}
		t1, t2 := (l-oa[i])/da[i], (h-oa[i])/da[i]
		if t1 > t2 {
			t1, t2 = t2, t1
		}
		tmin, tmax = math.Max(tmin, t1), math.Min(tmax, t2)
	}
	return tmin <= tmax && tmax > 0
}

// value is the radiance of the j-th sample of pixel p: a pure function, so what
// a pixel sees does not depend on which worker renders it.
func (o *castObj) value(p, j int) render3d.Color {
	h := choice.Derive(o.salt, fmt.Sprint(p, ",", j))
	u := float64(h%1024) / 1024
	v := float64((h>>20)%1024) / 1024
	base := float64(choice.Derive(o.salt, fmt.Sprint("base", p))%256) / 256
	switch o.stream {
	case 0: // constant per pixel
		return render3d.NewColorRGB(base, base/2, 1-base)
	case 1: // alternating
		if j%2 == 0 {
			return render3d.NewColorRGB(base, 0, 1)
		}
		return render3d.NewColorRGB(0, base, 0.25)
	case 2: // heavy-tailed
		if h%17 == 0 {
			return render3d.NewColorRGB(40*u, 3, 0)
		}
		return render3d.NewColorRGB(0.01*u, 0.02*v, 0.5)
	case 3: // noisy for a few samples, then settles
		k := int(choice.Derive(o.salt, fmt.Sprint("k", p)) % 9)
		if j < k {
			return render3d.NewColorRGB(u, v, u*v)
		}
		return render3d.NewColorRGB(base, base, base)
	case 4: // oversaturated
		return render3d.NewColorRGB(2+u, 3+0.001*v, 5)
	default: // occasionally non-finite radiance (a degenerate material): the mean is then non-finite too
		switch h % 11 {
		case 0:
			return render3d.NewColorRGB(math.NaN(), v, 1)
		case 1:
			return render3d.NewColorRGB(u, math.Inf(1), 1)
		}
		return render3d.NewColorRGB(u, v, base)
	}
}

//go:norace
func (o *castObj) record(p int) (render3d.Color, int) {
	gid := simsched.GoID()
	o.mu.Lock()
	defer o.mu.Unlock()
	seq := -1
	for i := range o.perG {
		if o.perG[i].gid == gid {
			seq = o.perG[i].n
			o.perG[i].n++
			break
		}
	}
	if seq < 0 {
		seq = 0
		o.perG = append(o.perG, gcount{gid, 1})
	}
	j := len(o.hist[p])
	v := o.value(p, j)
	o.hist[p] = append(o.hist[p], sample{v, gid, seq})
	return v, j
}

//go:norace
func (o *castObj) note(unknown bool) {
	o.mu.Lock()
	if unknown {
		o.unknown++
	} else {
		o.other++
	}
	o.mu.Unlock()
}

//go:norace
func (o *castObj) noteNested(pic []render3d.Color) {
	o.mu.Lock()
	defer o.mu.Unlock()
	o.nested++
	for i, c := range pic {
		if c != o.innerRef[i] && o.nestBad == "" {
			o.nestBad = fmt.Sprintf("pixel %d of the nested picture is %v, rendered alone it is %v", i, c, o.innerRef[i])
		}
	}
}

func (o *castObj) pixelOf(r *model3d.Ray) int {
	if o.aa == 0 {
		k := [3]uint64{math.Float64bits(r.Direction.X), math.Float64bits(r.Direction.Y), math.Float64bits(r.Direction.Z)}
		if p, ok := o.dirs[k]; ok {
			return p
		}
		return -1
	}
	x, y := o.uncast(r.Origin.Add(r.Direction))
	px, py := int(math.Round(x)), int(math.Round(y))
	if px < 0 || py < 0 || px >= o.w || py >= o.h || math.Abs(x-float64(px)) > 0.5*o.aa+1e-6 || math.Abs(y-float64(py)) > 0.5*o.aa+1e-6 {
		return -1
	}
	return py*o.w + px
}

func (o *castObj) Cast(r *model3d.Ray) (model3d.RayCollision, render3d.Material, bool) {
	if r.Origin != o.origin {
		// secondary ray (bounce, shadow or light path): nothing there
		o.note(false)
		return model3d.RayCollision{}, nil, false
	}
	p := o.pixelOf(r)
	if p < 0 {
		o.note(true)
		return model3d.RayCollision{}, nil, false
	}
	if o.bounded && !o.hitsBounds(r.Origin, r.Direction, 0) {
		o.note(false)
		return model3d.RayCollision{}, nil, false
	}
	v, j := o.record(p)
	if o.yieldEvery != 0 && choice.Derive(o.salt, fmt.Sprint("y", p, j))%o.yieldEvery == 0 {
		simsched.Yield("object.cast", p)
	}
	if o.nestEvery != 0 && choice.Derive(o.salt, fmt.Sprint("n", p, j))%o.nestEvery == 0 {
		pic := render3d.NewImage(2, 2)
		(&render3d.RayCaster{Camera: o.innerCam}).Render(pic, o.inner)
		o.noteNested(pic.Data)
	}
	return model3d.RayCollision{Scale: 1, Normal: r.Direction.Normalize().Scale(-1)},
		&render3d.LambertMaterial{EmissionColor: v}, true
}

func RunCase(t *testing.T, c *Case, work, sched *choice.Source, st *Stats) (fs []Finding) {
	defer func() {
		c.Work, c.Sched, c.Pol = work.Tape(), sched.Tape(), sched.AuxTape()
		runtime.GOMAXPROCS(16)
	}()
	w, h := 2+work.Intn(11), 2+work.Intn(11)
	if work.Chance(1, 4) {
		w, h = 2+work.Intn(23), 2+work.Intn(23)
	}
	workers := 1 + work.Intn(32)
	if work.Chance(1, 2) {
		workers = 1 + work.Intn(6)
	}
	renderer := work.Intn(4) // 0,1 recursive; 2 ray caster; 3 bidirectional
	numSamples := 1 + work.Intn(64)
	if work.Chance(1, 2) {
		numSamples = 1 + work.Intn(8)
	}
	minSamples := work.Intn(numSamples + 1)
	maxStddev := []float64{0, 1e-9, 0.01, 0.3, 1e9}[work.Intn(5)]
	oversat := []float64{0, 3}[work.Intn(2)]
	convKind := work.Intn(4) // 0: none, 1: hash of mean, 2: always, 3: never
	convSalt := work.U64()
	aa := []float64{0, 0, 0.5, 0.9}[work.Intn(4)]
	logf := work.Chance(1, 2)
	sticky := work.Intn(4)
	fov := 0.4 + work.Float()
	obj := &castObj{w: w, h: h, aa: aa, stream: work.Intn(6), salt: work.U64(), yieldEvery: uint64([]int{0, 1, 3, 17}[work.Intn(4)])}
	cam := render3d.NewCameraAt(model3d.XYZ(0.3+work.Float(), -4, 0.5), model3d.XYZ(0, 0, work.Float()), fov)
	obj.origin = cam.Origin
	gmp := 1 + work.Intn(8)
	// (drawn last so that recorded tapes keep their meaning) a sample budget
	// below the minimum: early stopping is configured but can never fire
	if work.Chance(1, 6) {
		minSamples = numSamples + 1 + work.Intn(100)
	}
	// an image with more than 65536 pixels along one axis (two pixels across): one
	// sample per pixel, scheduling points thinned to every 64th
	huge := false
	if aa == 0 && work.Chance(1, 300) {
		huge = true
		w, h = 65537+work.Intn(80), 2
		if work.Chance(1, 2) {
			w, h = h, w
		}
		obj.w, obj.h = w, h
		numSamples, minSamples = 1+work.Intn(2), 0
		obj.yieldEvery = 0
		st.probe("image with more than 65536 pixels along one axis")
	}
	// a bounded scene (only without antialiasing, where rays are attributed exactly):
	// a floor slab under the camera or a wall beside it - the box does not contain
	// the camera but reaches behind the camera plane
	if aa == 0 && !huge && work.Chance(1, 5) {
		obj.bounded = true
		switch work.Intn(3) {
		case 0:
			obj.bmin, obj.bmax = model3d.XYZ(-50, -50, -6), model3d.XYZ(50, 50, -0.5-work.Float())
		case 1:
			obj.bmin, obj.bmax = model3d.XYZ(2+work.Float(), -50, -50), model3d.XYZ(9, 50, 50)
		default:
			obj.bmin, obj.bmax = model3d.XYZ(-9, -3+work.Float(), -2), model3d.XYZ(0.1, 30, 0.3)
		}
		st.probe("bounded scene (slab not containing the camera)")
	}
	// deep sampling on a tiny image: hundreds to thousands of samples per pixel,
	// so that anything the estimator does per batch of samples is crossed
	if !huge && work.Chance(1, 10) {
		numSamples = 65 + work.Intn(2000)
		if work.Chance(1, 2) {
			numSamples = []int{127, 128, 129, 255, 256, 257, 511, 512, 513, 1023, 1024, 1025, 2047, 2048, 2049}[work.Intn(15)]
		}
		if minSamples > 0 && work.Chance(1, 2) {
			minSamples = work.Intn(numSamples + 1)
		}
		w, h = 2, 2+work.Intn(2)
		obj.w, obj.h = w, h
		st.probe("deep sampling (65..2064 samples per pixel)")
	}
	obj.hist = make([][]sample, w*h)
	maxX, maxY := float64(w)-1, float64(h)-1
	caster := cam.Caster(maxX, maxY)
	obj.uncast = cam.Uncaster(maxX, maxY)
	obj.dirs = map[[3]uint64]int{}
	for y := 0; y < h; y++ {
		for x := 0; x < w; x++ {
			d := caster(float64(x), float64(y))
			obj.dirs[[3]uint64{math.Float64bits(d.X), math.Float64bits(d.Y), math.Float64bits(d.Z)}] = y*w + x
		}
	}
	if len(obj.dirs) != w*h {
		return nil // two pixels share a direction: cannot attribute (never seen in practice)
	}
	var conv func(mean, stddev render3d.Color) bool
	switch convKind {
	case 1:
		conv = func(mean, stddev render3d.Color) bool {
			return choice.Derive(convSalt, fmt.Sprint(math.Float64bits(mean.X), math.Float64bits(stddev.Y)))%3 == 0
		}
	case 2:
		conv = func(mean, stddev render3d.Color) bool { return true }
	case 3:
		conv = func(mean, stddev render3d.Color) bool { return false }
	}
	logCalls := 0
	var logFunc func(frac, rate float64)
	lastFrac := 0.0
	logBad := ""
	if logf {
		logFunc = func(frac, rate float64) {
			logCalls++
			if frac < lastFrac || frac > 1+1e-9 || rate < 1-1e-9 || rate > float64(numSamples)+1e-9 {
				logBad = fmt.Sprintf("LogFunc(frac=%v, sampleRate=%v) after frac=%v with NumSamples=%d", frac, rate, lastFrac, numSamples)
			}
			lastFrac = frac
		}
	}
	img := render3d.NewImage(w, h)
	names := []string{"RecursiveRayTracer", "RecursiveRayTracer", "RayCaster", "BidirPathTracer"}
	st.Workers, st.Pixels = workers, w*h
	st.Desc = fmt.Sprintf("%s %dx%d workers=%d NumSamples=%d MinSamples=%d MaxStddev=%g Oversat=%g conv=%d antialias=%g stream=%d log=%v",
		names[renderer], w, h, workers, numSamples, minSamples, maxStddev, oversat, convKind, aa, obj.stream, logf)
	hasConv := renderer != 2 && minSamples != 0 && (maxStddev != 0 || conv != nil)
	runtime.GOMAXPROCS(gmp)
	knobs := map[string]int{"render.workers": workers}
	if huge {
		// (no thinning of scheduling points: a thinned run is not a function of the tape -
		// goroutines handed a value over a channel run side by side until they park)
		knobs["hook.stride"], knobs["auto.stride"] = 1, 1
	}
	pol := simsched.DrawPolicy(sched)
	// (auxiliary tape) nested renders: one case in eight
	if aux := sched.Aux(); !huge && aux.Intn(8) == 7 {
		obj.nestEvery = uint64([]int{1, 1, 2, 5, 17}[aux.Intn(5)])
		if numSamples > 64 && obj.nestEvery < 17 {
			// (deep sampling: thousands of samples per pixel; a nested render for each
			// would run into the step budget)
			obj.nestEvery = 17
		}
		obj.inner = &render3d.ColliderObject{Collider: &model3d.Sphere{Center: model3d.XYZ(0, 3, 0), Radius: 1.5},
			Material: &render3d.LambertMaterial{EmissionColor: render3d.NewColorRGB(0.25, 0.5, 0.75), AmbientColor: render3d.NewColorRGB(0.1, 0.2, 0.3)}}
		obj.innerCam = render3d.NewCameraAt(model3d.XYZ(0, 0, 0), model3d.XYZ(0, 1, 0), math.Pi/3)
		ref := render3d.NewImage(2, 2)
		(&render3d.RayCaster{Camera: obj.innerCam}).Render(ref, obj.inner)
		obj.innerRef = ref.Data
		st.probe("nested renders (Cast renders a picture of another scene)")
		st.Desc += fmt.Sprintf(" nested-render-every=%d", obj.nestEvery)
	}
	res := simsched.Run(t, simsched.Config{Src: sched, Sticky: sticky, Knobs: knobs, Policy: pol, MaxSteps: 1600000}, func() {
		switch renderer {
		case 0, 1:
			(&render3d.RecursiveRayTracer{Camera: cam, MaxDepth: 0, NumSamples: numSamples, MinSamples: minSamples, MaxStddev: maxStddev,
				OversaturatedStddevs: oversat, Convergence: conv, Antialias: aa, LogFunc: logFunc}).Render(img, obj)
		case 2:
			(&render3d.RayCaster{Camera: cam}).Render(img, obj)
		case 3:
			light := render3d.NewSphereAreaLight(&model3d.Sphere{Center: model3d.XYZ(0, 0, 8), Radius: 0.5}, render3d.NewColor(10))
			(&render3d.BidirPathTracer{Camera: cam, Light: light, MaxDepth: 2, NumSamples: numSamples, MinSamples: minSamples, MaxStddev: maxStddev,
				OversaturatedStddevs: oversat, Convergence: conv, Antialias: aa, LogFunc: logFunc}).Render(img, obj)
		}
	})
	st.Steps, st.Preempt, st.Tasks, st.TraceHash = res.Steps, res.Preemptions, res.Tasks, res.TraceHash
	switch {
	case res.Deadlock:
		return []Finding{{"deadlock", fmt.Sprintf("%s: Render never returned: all goroutines blocked after %d steps (parked %v)", st.Desc, res.Steps, res.Blocked)}}
	case res.Livelock:
		return []Finding{{"livelock", fmt.Sprintf("%s: Render did not return within %d scheduler steps", st.Desc, res.Steps)}}
	case res.Panic != nil:
		return []Finding{{"panic", fmt.Sprintf("%s: panic %v\n%s", st.Desc, res.Panic, res.PanicStack)}}
	}
	if obj.unknown > 0 {
		return []Finding{{"harness|unattributed-ray", fmt.Sprintf("%s: %d primary rays could not be mapped to a pixel", st.Desc, obj.unknown)}}
	}
	if logBad != "" {
		fs = append(fs, Finding{"logfunc", st.Desc + ": " + logBad})
	}
	if obj.nestBad != "" {
		fs = append(fs, Finding{"nested-render", st.Desc + ": " + obj.nestBad})
	}
	st.Nested = obj.nested
	wantN := numSamples
	if renderer == 2 {
		wantN = 1
	}
	for p := 0; p < w*h; p++ {
		hp := obj.hist[p]
		st.Samples += len(hp)
		if obj.bounded {
			d := caster(float64(p%w), float64(p/w))
			in, out := obj.hitsBounds(cam.Origin, d, 1e-9), !obj.hitsBounds(cam.Origin, d, -1e-9)
			if !in && !out {
				continue // the ray grazes the box: either answer is right
			}
			if out {
				// nothing to hit: no sample may be attributed and the pixel is black
				if c := img.Data[p]; len(hp) != 0 || c.X != 0 || c.Y != 0 || c.Z != 0 {
					fs = append(fs, Finding{"pixel-outside-bounds", fmt.Sprintf("%s: pixel %d looks past the object's bounding box but has %d samples and value %v", st.Desc, p, len(hp), c)})
					return
				}
				continue
			}
		}
		if len(hp) == 0 {
			fs = append(fs, Finding{"pixel-never-rendered", fmt.Sprintf("%s: pixel %d (of %d) received no sample", st.Desc, p, w*h)})
			return
		}
		// exactly once: one goroutine, one contiguous episode
		for i := 1; i < len(hp); i++ {
			if hp[i].gid != hp[0].gid || hp[i].seq != hp[i-1].seq+1 {
				fs = append(fs, Finding{"pixel-rendered-twice", fmt.Sprintf("%s: pixel %d was sampled in more than one episode (sample %d of %d breaks the run)", st.Desc, p, i, len(hp))})
				return
			}
		}
		n := len(hp)
		if n > wantN || !hasConv && n != wantN || hasConv && n < min(minSamples, numSamples) {
			fs = append(fs, Finding{"sample-count", fmt.Sprintf("%s: pixel %d took %d samples (NumSamples=%d MinSamples=%d convergence check=%v)", st.Desc, p, n, numSamples, minSamples, hasConv)})
			return
		}
		if n < wantN {
			st.EarlyStops++
		}
		if renderer == 3 {
			continue // a bidirectional sample's radiance is not observable at the Cast seam
		}
		var sum render3d.Color
		for _, s := range hp {
			sum = sum.Add(s.val)
		}
		mean := sum.Scale(1 / float64(n))
		got := img.Data[p]
		tol := 1e-9
		for _, m := range mean.Array() {
			if !math.IsNaN(m) && !math.IsInf(m, 0) {
				tol += 1e-9 * math.Abs(m)
			}
		}
		near := func(a, b float64) bool {
			if math.IsNaN(a) || math.IsNaN(b) {
				return math.IsNaN(a) && math.IsNaN(b)
			}
			if math.IsInf(a, 0) || math.IsInf(b, 0) {
				return a == b
			}
			return math.Abs(a-b) <= tol
		}
		if !(near(got.X, mean.X) && near(got.Y, mean.Y) && near(got.Z, mean.Z)) {
			sig := "pixel-not-mean"
			if n < wantN {
				sig = "pixel-not-mean|early-stop"
			}
			fs = append(fs, Finding{sig, fmt.Sprintf("%s: pixel %d = %v but the mean of its %d samples is %v (sum %v)", st.Desc, p, got, n, mean, sum)})
			return
		}
	}
	if len(fs) == 0 && work.Chance(1, 4) {
		if f := historyCheck(t, work, st, workers); f != nil {
			fs = append(fs, *f)
			return
		}
	}
	if st.EarlyStops > 0 {
		st.probe("early stop fired")
	}
	if hasConv && minSamples > numSamples {
		st.probe("MinSamples above NumSamples with a convergence check")
	}
	if st.EarlyStops == w*h {
		st.probe("every pixel stopped early")
	}
	if workers > w*h {
		st.probe("more workers than pixels")
	}
	if logCalls > 0 {
		st.probe("LogFunc called")
	}
	return
}

// historyCheck: a render is a function of (scene, settings, random stream).  A real
// scene B is rendered once from a clean slate and once more right after a
// different scene A (other light, other materials) was rendered in the same
// process, both times with the same seed of the global generator and the same
// (FIFO) schedule; the two images of B must be identical bit for bit.  Anything
// the renderer keeps between renders (pooled per-worker state, caches keyed too
// coarsely) shows up as a difference - whichever worker picks the stale state up.
func historyCheck(t *testing.T, work *choice.Source, st *Stats, workers int) *Finding {
	w, h := 2+work.Intn(5), 2+work.Intn(5)
	kind := work.Intn(3) // 0 recursive, 1 bidirectional, 2 ray caster
	samples := 1 + work.Intn(6)
	depth := 1 + work.Intn(3)
	seed := int64(work.U64() >> 1)
	emA, emB := 3+20*work.Float(), 3+20*work.Float()
	radA, radB := 0.3+work.Float(), 0.3+work.Float()
	cam := render3d.NewCameraAt(model3d.XYZ(0.3, -4, 0.5), model3d.XYZ(0, 0, 0), 0.9)
	mkScene := func(em, rad float64, alt bool) (render3d.Object, render3d.AreaLight, []*render3d.PointLight) {
		light := render3d.NewSphereAreaLight(&model3d.Sphere{Center: model3d.XYZ(0.5, -1, 3), Radius: rad}, render3d.NewColor(em))
		var mat render3d.Material = &render3d.LambertMaterial{DiffuseColor: render3d.NewColorRGB(0.8, 0.3, 0.2)}
		if alt {
			mat = &render3d.PhongMaterial{Alpha: 5, SpecularColor: render3d.NewColor(0.4), DiffuseColor: render3d.NewColorRGB(0.1, 0.5, 0.9)}
		}
		obj := render3d.JoinedObject{
			&render3d.ColliderObject{Collider: &model3d.Sphere{Center: model3d.XYZ(0, 0, 0), Radius: 1}, Material: mat},
			&render3d.ColliderObject{Collider: &model3d.Rect{MinVal: model3d.XYZ(-3, -3, -1.2), MaxVal: model3d.XYZ(3, 3, -1)},
				Material: &render3d.LambertMaterial{DiffuseColor: render3d.NewColor(0.6)}},
			light,
		}
		return obj, light, []*render3d.PointLight{{Origin: model3d.XYZ(2, -3, 4), Color: render3d.NewColor(em / 10)}}
	}
	render := func(em, rad float64, alt bool) (*render3d.Image, *Finding) {
		obj, light, points := mkScene(em, rad, alt)
		img := render3d.NewImage(w, h)
		rand.Seed(seed)
		res := simsched.Run(t, simsched.Config{Src: choice.Replay(nil), Knobs: map[string]int{"render.workers": workers}}, func() {
			switch kind {
			case 0:
				(&render3d.RecursiveRayTracer{Camera: cam, Lights: points, MaxDepth: depth, NumSamples: samples}).Render(img, obj)
			case 1:
				(&render3d.BidirPathTracer{Camera: cam, Light: light, MaxDepth: depth + 1, NumSamples: samples}).Render(img, obj)
			default:
				(&render3d.RayCaster{Camera: cam, Lights: points}).Render(img, obj)
			}
		})
		st.Steps += res.Steps
		if res.Deadlock || res.Livelock || res.Panic != nil {
			return nil, &Finding{"history|render-failed", fmt.Sprintf("history check: render did not complete (deadlock=%v livelock=%v panic=%v)", res.Deadlock, res.Livelock, res.Panic)}
		}
		return img, nil
	}
	// a clean slate: whatever sync.Pools hold is dropped by two collections
	runtime.GC()
	runtime.GC()
	first, f := render(emB, radB, false)
	if f != nil {
		return f
	}
	if _, f := render(emA, radA, true); f != nil {
		return f
	}
	second, f := render(emB, radB, false)
	if f != nil {
		return f
	}
	// ... and once more with scene A as the very first render after a clean slate
	// (state that is created once and never refreshed)
	runtime.GC()
	runtime.GC()
	if _, f := render(emA, radA, true); f != nil {
		return f
	}
	third, f := render(emB, radB, false)
	if f != nil {
		return f
	}
	st.probe("history check (scene B, scene A, scene B again)")
	for i := range first.Data {
		a, b := first.Data[i], second.Data[i]
		if c := third.Data[i]; a == b || a != a {
			b = c
		}
		same := func(x, y float64) bool { return x == y || x != x && y != y }
		if !(same(a.X, b.X) && same(a.Y, b.Y) && same(a.Z, b.Z)) {
			names := []string{"RecursiveRayTracer", "BidirPathTracer", "RayCaster"}
			return &Finding{"history|" + names[kind], fmt.Sprintf("%s %dx%d workers=%d samples=%d depth=%d: pixel %d of a scene is %v when rendered from a clean slate but %v when the same scene is rendered (same seed, same schedule) after another scene with a different light (emission %.3g/radius %.3g instead of %.3g/%.3g) - the renderer keeps state between renders",
				names[kind], w, h, workers, samples, depth, i, a, b, emA, radA, emB, radB)}
		}
	}
	return nil
}
