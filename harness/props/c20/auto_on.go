//go:build verif && autoyield

package c20

// built against the autoyield-instrumented scratch copy of the library
import _ "verif/harness/hookauto"
