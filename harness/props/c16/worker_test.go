package c16

import (
	"encoding/json"
	"fmt"
	"os"
	"runtime"
	"runtime/debug"
	"strings"
	"sync/atomic"
	"testing"
	"time"

	"verif/harness/choice"
	"verif/harness/wproto"
)

var current atomic.Value // string: case id for the watchdog

func watchdog(out *wproto.Out) {
	var last string
	var since time.Time
	for {
		time.Sleep(500 * time.Millisecond)
		cur, _ := current.Load().(string)
		if cur != last {
			last, since = cur, time.Now()
			continue
		}
		if cur != "" && time.Since(since) > TimeBound {
			out.Note("TIMEOUT " + cur)
			os.Exit(3)
		}
	}
}

func TestWorker(t *testing.T) {
	job, err := wproto.LoadJob()
	if err != nil {
		t.Skip("not run by the driver: ", err)
	}
	out, err := wproto.OpenOut()
	if err != nil {
		t.Fatal(err)
	}
	debug.SetGCPercent(100)
	corpus := BuildCorpus()
	// warm up every decoder on every clean file so that lazily initialised
	// runtime structures are part of the baseline.
	for _, f := range corpus {
		for _, d := range DecodersFor(f.Kind) {
			Run(&Case{Decoder: d.Name, Data: f.Data}, 0)
		}
	}
	runtime.GC()
	var ms runtime.MemStats
	runtime.ReadMemStats(&ms)
	baseSys := ms.HeapSys
	go watchdog(out)

	runOne := func(id int, c *Case, kind string) bool {
		current.Store(fmt.Sprint(id))
		out.Begin(id)
		res := Run(c, baseSys)
		current.Store("")
		var sigs []string
		if res.Kind != "" {
			sigs = []string{res.Sig}
			out.Finding(id, res.Sig, res.Kind, res.Msg, c)
		}
		out.Trace(id, "", []any{sigs, c.Decoder, c.Delivery, len(c.Data), res.Err, res.Reader.Calls, res.Reader.Delivered(), res.Reader.Frags, res.Reader.ZeroReads, res.Reader.DataEOFs, res.Reader.ErrsFired}, nil)
		out.End(id, sigs)
		out.Count("evaluations", 1)
		out.Count("sim_bytes", int64(res.Reader.Delivered()))
		out.Count("read_calls", int64(res.Reader.Calls))
		out.Count("fault.FRAG", int64(res.Reader.Frags))
		out.Count("fault.ZERO", int64(res.Reader.ZeroReads))
		out.Count("fault.DATA+EOF", int64(res.Reader.DataEOFs))
		out.Count("fault.R-ERR", int64(res.Reader.ErrsFired))
		if kind != "" {
			out.Count("fault."+kind, 1)
		}
		if res.Err != "" {
			out.Count("outcome.error", 1)
			out.SetAdd("error_classes", c.Decoder+"|"+msgClass(res.Err))
		} else if res.Kind == "" {
			out.Count("outcome.data", 1)
		}
		if res.Kind != "" {
			out.Count("outcome."+res.Kind, 1)
		}
		if len(c.Faults) > 0 {
			out.SetAdd("distinct_nontrivial", wproto.Hash(append([]byte(c.Decoder+"|"+fmt.Sprint(c.Delivery)+"|"), c.Data...)))
		}
		if res.Growth > out.Counters["max_heap_growth"] {
			out.Counters["max_heap_growth"] = res.Growth
		}
		if len(c.Data) <= 4096 {
			out.Remember(c)
		}
		out.Tick(256)
		// a flagged memory trial moved the high-water mark, and so does slow
		// creep from garbage: restart the worker so the mark cannot mask later trials
		if res.Creep > 6<<20 {
			out.Count("creep_restarts", 1)
			return true
		}
		return res.Kind == "mem"
	}

	switch job.Mode {
	case "replay":
		for i, raw := range job.Cases {
			if i < job.Start {
				continue
			}
			var c Case
			if err := json.Unmarshal(raw, &c); err != nil {
				t.Fatal(err)
			}
			if runOne(i, &c, "") && i+1 < len(job.Cases) {
				out.Finish("restart", i+1)
				return
			}
		}
		out.Finish("done", len(job.Cases))
	case "dump":
		var want int
		fmt.Sscan(job.Params["case"], &want)
		total := Enumerate(corpus, job.Tier, job.Seed, func(idx int, kind string, mk func() *Case) {
			if idx == want {
				out.Emit(map[string]any{"t": "dump", "replay": mk()})
			}
		})
		if want >= total {
			src := choice.New(job.Seed, fmt.Sprint("c16-random-", want-total))
			out.Emit(map[string]any{"t": "dump", "replay": RandomCase(corpus, src)})
		}
	case "explore":
		deadline := time.Now().Add(time.Duration(job.BudgetS * float64(time.Second)))
		restart := -1
		total := Enumerate(corpus, job.Tier, job.Seed, func(idx int, kind string, mk func() *Case) {
			if restart >= 0 || idx < job.Start || idx%job.NShards != job.Shard {
				return
			}
			c := mk()
			if idx%997 == 0 || kind == "CLEAN" && idx%3 == 0 {
				out.Sample(map[string]any{"decoder": c.Decoder, "file": c.File, "faults": c.Faults, "bytes": len(c.Data)}, 6)
			}
			if runOne(idx, c, kind) {
				restart = idx + 1
			}
		})
		if restart >= 0 {
			out.Count("worker_restarts", 1)
			out.Finish("restart", restart)
			return
		}
		out.Counters["max_enumerated_total"] = int64(total)
		if job.Tier == "thorough" {
			// seeded multi-fault sequences after the exhaustive part
			start := job.Start - total
			if start < 0 {
				start = 0
			}
			for i := start; time.Now().Before(deadline) && (job.MaxCases == 0 || i < job.MaxCases); i++ {
				if i%job.NShards != job.Shard {
					continue
				}
				src := choice.New(job.Seed, fmt.Sprint("c16-random-", i))
				c := RandomCase(corpus, src)
				if i%4999 == 0 {
					out.Sample(map[string]any{"decoder": c.Decoder, "file": c.File, "faults": c.Faults, "bytes": len(c.Data)}, 10)
				}
				if runOne(total+i, c, "MULTI") {
					out.Count("worker_restarts", 1)
					out.Finish("restart", total+i+1)
					return
				}
			}
		}
		out.Finish("done", -1)
	default:
		t.Fatal("unknown mode " + job.Mode)
	}
	_ = strings.TrimSpace
}
