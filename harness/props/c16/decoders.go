package c16

import (
	"io"

	"github.com/unixpickle/model3d/fileformats"
	"github.com/unixpickle/model3d/model2d"
	"github.com/unixpickle/model3d/model3d"
)

// rowCap bounds a caller-side loop: a decoder that hands out more rows than
// that without reaching EOF is producing output without consuming input.
func rowCap(n int) int { return 16*n + 4096 }

type NoProgress struct{ Rows int }

type Decoder struct {
	Name  string
	Kinds []string
	Run   func(r io.Reader, n int) (rows int, err error)
}

var Decoders = []Decoder{
	{"ReadSTL", []string{"stl"}, func(r io.Reader, n int) (int, error) {
		t, err := model3d.ReadSTL(r)
		return len(t), err
	}},
	{"STLReader.ReadTriangle", []string{"stl"}, func(r io.Reader, n int) (int, error) {
		sr, err := fileformats.NewSTLReader(r)
		if err != nil {
			return 0, err
		}
		rows := 0
		for {
			_, _, err := sr.ReadTriangle()
			if err != nil {
				if err == io.EOF {
					return rows, nil
				}
				return rows, err
			}
			rows++
			if rows > rowCap(n) {
				panic(NoProgress{rows})
			}
		}
	}},
	{"ReadOFF", []string{"off"}, func(r io.Reader, n int) (int, error) {
		t, err := model3d.ReadOFF(r)
		return len(t), err
	}},
	{"OFFReader.ReadFace", []string{"off"}, func(r io.Reader, n int) (int, error) {
		or, err := fileformats.NewOFFReader(r)
		if err != nil {
			return 0, err
		}
		rows := 0
		for {
			_, err := or.ReadFace()
			if err != nil {
				if err == io.EOF {
					return rows, nil
				}
				return rows, err
			}
			rows++
			if rows > rowCap(n) {
				panic(NoProgress{rows})
			}
		}
	}},
	{"ReadColorPLY", []string{"plymesh", "plygen"}, func(r io.Reader, n int) (int, error) {
		t, _, err := model3d.ReadColorPLY(r)
		return len(t), err
	}},
	{"PLYReader.Read", []string{"plymesh", "plygen"}, func(r io.Reader, n int) (int, error) {
		pr, err := fileformats.NewPLYReader(r)
		if err != nil {
			return 0, err
		}
		rows := 0
		for {
			_, _, err := pr.Read()
			if err != nil {
				if err == io.EOF {
					return rows, nil
				}
				return rows, err
			}
			rows++
			if rows > rowCap(n) {
				panic(NoProgress{rows})
			}
		}
	}},
	{"NewPLYHeaderDecode", []string{"plyhdr"}, func(r io.Reader, n int) (int, error) {
		b, err := io.ReadAll(r)
		if err != nil {
			return 0, nil // the injected error never reaches this string decoder
		}
		h, err := fileformats.NewPLYHeaderDecode(string(b))
		if err != nil {
			return 0, err
		}
		return len(h.Elements), nil
	}},
	{"DecodeCSV", []string{"csv"}, func(r io.Reader, n int) (int, error) {
		b, err := io.ReadAll(r)
		if err != nil {
			return 0, nil
		}
		s, err := model2d.DecodeCSV(b)
		return len(s), err
	}},
	{"SegmentCSVReader.Read", []string{"csv"}, func(r io.Reader, n int) (int, error) {
		cr := fileformats.NewSegmentCSVReader(r)
		rows := 0
		for {
			_, err := cr.Read()
			if err != nil {
				if err == io.EOF {
					return rows, nil
				}
				return rows, err
			}
			rows++
			if rows > rowCap(n) {
				panic(NoProgress{rows})
			}
		}
	}},
	// A caller that skips a bad record: ReadFace is called again after it has
	// returned an error (a fault inside the vertex block or a face line).  The
	// calls after a fault may fail or succeed; they must not panic or spin.
	{"OFFReader.ReadFace.retry", []string{"off"}, func(r io.Reader, n int) (int, error) {
		or, err := fileformats.NewOFFReader(r)
		if err != nil {
			return 0, err
		}
		rows, faults := 0, 0
		var first error
		for {
			_, err := or.ReadFace()
			if err == io.EOF {
				return rows, first
			}
			if err != nil {
				if first == nil {
					first = err
				}
				if faults++; faults > 8 {
					return rows, first
				}
				continue
			}
			rows++
			if rows > rowCap(n) {
				panic(NoProgress{rows})
			}
		}
	}},
}

func DecoderByName(name string) *Decoder {
	for i := range Decoders {
		if Decoders[i].Name == name {
			return &Decoders[i]
		}
	}
	return nil
}

func DecodersFor(kind string) []*Decoder {
	var res []*Decoder
	for i := range Decoders {
		for _, k := range Decoders[i].Kinds {
			if k == kind {
				res = append(res, &Decoders[i])
			}
		}
	}
	return res
}
