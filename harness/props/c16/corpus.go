package c16

import (
	"bytes"
	"encoding/binary"
	"fmt"
	"math"
	"strings"

	"github.com/unixpickle/model3d/fileformats"
	"github.com/unixpickle/model3d/model2d"
	"github.com/unixpickle/model3d/model3d"
)

// A Field is a structurally located value inside a corpus file.
type Field struct {
	Off, Len int
	Kind     string // "u32le","i32le","i32be","u8","i8","u16le","u16be","i16le","i16be","u32be","token"
	Role     string
}

type CorpusFile struct {
	Name   string
	Kind   string // stl | off | plymesh | plygen | csv
	Data   []byte
	Fields []Field
	Binary bool
	// Big: far larger than any internal buffer (tens of KiB); faults are enumerated
	// around buffer-size boundaries and at a stride instead of at every offset
	Big bool
	// Huge: hundreds of KiB.  Only the header's fields, the first bytes and lines and
	// the offsets around the ends and the 64 KiB boundaries are faulted.
	Huge bool
}

func tri(a, b, c [3]float64) *model3d.Triangle {
	return &model3d.Triangle{model3d.NewCoord3DArray(a), model3d.NewCoord3DArray(b), model3d.NewCoord3DArray(c)}
}

func smallMesh(n int) []*model3d.Triangle {
	// a fan of n triangles sharing vertices, non-degenerate, float32-exact coordinates.
	var ts []*model3d.Triangle
	for i := 0; i < n; i++ {
		f := float64(i)
		ts = append(ts, tri([3]float64{0, 0, f * 0.5}, [3]float64{1 + f, 0.25, 0}, [3]float64{0.5, 1 + f*0.125, -f}))
	}
	return ts
}

func asciiSTL(n int, finalNewline bool) []byte {
	var b strings.Builder
	b.WriteString("solid verif\n")
	for _, t := range smallMesh(n) {
		nrm := t.Normal()
		fmt.Fprintf(&b, " facet normal %g %g %g\n  outer loop\n", nrm.X, nrm.Y, nrm.Z)
		for _, v := range t {
			fmt.Fprintf(&b, "   vertex %g %g %g\n", v.X, v.Y, v.Z)
		}
		b.WriteString("  endloop\n endfacet\n")
	}
	b.WriteString("endsolid verif")
	if finalNewline {
		b.WriteString("\n")
	}
	return []byte(b.String())
}

func offTetra(sameLine bool) []byte {
	var b strings.Builder
	if sameLine {
		b.WriteString("OFF 4 4 6\n")
	} else {
		b.WriteString("OFF\n4 4 6\n")
	}
	b.WriteString("0 0 0\n1 0 0\n0 1 0\n0 0 1.5\n")
	b.WriteString("3 0 2 1\n3 0 1 3\n3 1 2 3\n3 0 3 2\n")
	return []byte(b.String())
}

func offCube() []byte {
	var b strings.Builder
	b.WriteString("OFF\n8 6 12\n")
	for i := 0; i < 8; i++ {
		fmt.Fprintf(&b, "%d %d.5 %d\n", i&1, (i>>1)&1, (i>>2)&1)
	}
	b.WriteString("4 0 1 3 2\n4 4 6 7 5\n4 0 4 5 1\n4 2 3 7 6\n4 0 2 6 4\n4 1 5 7 3\n")
	return []byte(b.String())
}

type plyRow []fileformats.PLYValue

func genericPLY(format fileformats.PLYFormat) ([]byte, []Field) {
	h := &fileformats.PLYHeader{
		Format: format,
		Elements: []*fileformats.PLYElement{
			{Name: "vertex", Count: 3, Properties: []*fileformats.PLYProperty{
				{Name: "x", ElemType: fileformats.PLYPropertyTypeFloat},
				{Name: "y", ElemType: fileformats.PLYPropertyTypeFloat64},
				{Name: "z", ElemType: fileformats.PLYPropertyTypeFloat32},
				{Name: "q", ElemType: fileformats.PLYPropertyTypeUchar},
			}},
			{Name: "face", Count: 2, Properties: []*fileformats.PLYProperty{
				{Name: "vertex_index", LenType: fileformats.PLYPropertyTypeUchar, ElemType: fileformats.PLYPropertyTypeInt},
				{Name: "flags", ElemType: fileformats.PLYPropertyTypeShort},
			}},
			{Name: "extra", Count: 2, Properties: []*fileformats.PLYProperty{
				{Name: "a", LenType: fileformats.PLYPropertyTypeUshort, ElemType: fileformats.PLYPropertyTypeDouble},
				{Name: "b", ElemType: fileformats.PLYPropertyTypeUint},
				{Name: "c", LenType: fileformats.PLYPropertyTypeInt, ElemType: fileformats.PLYPropertyTypeChar},
				{Name: "d", ElemType: fileformats.PLYPropertyTypeUint16},
				{Name: "e", LenType: fileformats.PLYPropertyTypeInt8, ElemType: fileformats.PLYPropertyTypeUint8},
			}},
		},
	}
	u8 := func(v uint8) fileformats.PLYValue { return fileformats.PLYValueUint8{Value: v} }
	i8 := func(v int8) fileformats.PLYValue { return fileformats.PLYValueInt8{Value: v} }
	i32 := func(v int32) fileformats.PLYValue { return fileformats.PLYValueInt32{Value: v} }
	f32 := func(v float32) fileformats.PLYValue { return fileformats.PLYValueFloat32{Value: v} }
	f64 := func(v float64) fileformats.PLYValue { return fileformats.PLYValueFloat64{Value: v} }
	list := func(l fileformats.PLYValue, vs ...fileformats.PLYValue) fileformats.PLYValue {
		return fileformats.PLYValueList{Length: l, Values: vs}
	}
	rows := []plyRow{
		{f32(0), f64(0.1), f32(-2.5), u8(7)},
		{f32(1), f64(1e-3), f32(3), u8(255)},
		{f32(-1), f64(2), f32(0.5), u8(0)},
		{list(u8(3), i32(0), i32(1), i32(2)), fileformats.PLYValueInt16{Value: -3}},
		{list(u8(4), i32(2), i32(1), i32(0), i32(1)), fileformats.PLYValueInt16{Value: 9}},
		{list(fileformats.PLYValueUint16{Value: 2}, f64(1.5), f64(-2.25)), fileformats.PLYValueUint32{Value: 70000},
			list(i32(3), i8(-1), i8(2), i8(3)), fileformats.PLYValueUint16{Value: 65535}, list(i8(1), u8(200))},
		{list(fileformats.PLYValueUint16{Value: 0}), fileformats.PLYValueUint32{Value: 1},
			list(i32(0)), fileformats.PLYValueUint16{Value: 2}, list(i8(2), u8(1), u8(2))},
	}
	var buf bytes.Buffer
	w, err := fileformats.NewPLYWriter(&buf, h)
	if err != nil {
		panic(err)
	}
	for _, r := range rows {
		if err := w.Write(r); err != nil {
			panic(err)
		}
	}
	data := buf.Bytes()
	var fields []Field
	if format != fileformats.PLYFormatASCII {
		// locate the list-length fields and the index values of the binary body.
		be := format == fileformats.PLYFormatBinaryBig
		off := strings.Index(string(data), "end_header\n") + len("end_header\n")
		var order binary.ByteOrder = binary.LittleEndian
		if be {
			order = binary.BigEndian
		}
		sfx := "le"
		if be {
			sfx = "be"
		}
		var walk func(v fileformats.PLYValue, role string)
		walk = func(v fileformats.PLYValue, role string) {
			switch v := v.(type) {
			case fileformats.PLYValueList:
				walk(v.Length, "listlen")
				for _, e := range v.Values {
					walk(e, "listelem")
				}
			default:
				n := len(v.EncodeBinary(order))
				kind := ""
				switch v.(type) {
				case fileformats.PLYValueUint8:
					kind = "u8"
				case fileformats.PLYValueInt8:
					kind = "i8"
				case fileformats.PLYValueUint16:
					kind = "u16" + sfx
				case fileformats.PLYValueInt16:
					kind = "i16" + sfx
				case fileformats.PLYValueUint32:
					kind = "u32" + sfx
				case fileformats.PLYValueInt32:
					kind = "i32" + sfx
				}
				if kind != "" {
					fields = append(fields, Field{Off: off, Len: n, Kind: kind, Role: role})
				}
				off += n
			}
		}
		for _, r := range rows {
			for _, v := range r {
				walk(v, "scalar")
			}
		}
		if off != len(data) {
			panic(fmt.Sprintf("ply layout walk mismatch %d != %d", off, len(data)))
		}
	}
	return data, fields
}

func tokenFields(data []byte) []Field {
	// every whitespace/comma separated token that parses as a number.
	var fields []Field
	i := 0
	for i < len(data) {
		for i < len(data) && (data[i] == ' ' || data[i] == '\n' || data[i] == '\t' || data[i] == ',' || data[i] == '\r') {
			i++
		}
		j := i
		for j < len(data) && !(data[j] == ' ' || data[j] == '\n' || data[j] == '\t' || data[j] == ',' || data[j] == '\r') {
			j++
		}
		if j > i {
			tok := string(data[i:j])
			var f float64
			if _, err := fmt.Sscanf(tok, "%g", &f); err == nil && strings.IndexAny(tok[:1], "-+.0123456789") == 0 {
				fields = append(fields, Field{Off: i, Len: j - i, Kind: "token", Role: "number"})
			}
		}
		i = j
	}
	return fields
}

func colorOf(c model3d.Coord3D) [3]uint8 {
	h := math.Float64bits(c.X)*3 + math.Float64bits(c.Y)*5 + math.Float64bits(c.Z)*7
	return [3]uint8{uint8(h >> 8), uint8(h >> 16), uint8(h >> 24)}
}

func asciiEnd(data []byte) int {
	i := strings.Index(string(data), "end_header\n")
	if i < 0 {
		return len(data)
	}
	return i + len("end_header\n")
}

// BuildCorpus produces the valid files every fault is applied to.
func BuildCorpus() []*CorpusFile {
	var c []*CorpusFile
	add := func(name, kind string, data []byte, fields []Field) {
		bin := false
		for _, f := range fields {
			if f.Kind != "token" {
				bin = true
			}
		}
		c = append(c, &CorpusFile{Name: name, Kind: kind, Data: data, Fields: fields, Binary: bin})
	}
	for _, n := range []int{0, 1, 4, 9} {
		d := model3d.EncodeSTL(smallMesh(n))
		add(fmt.Sprintf("stl_bin_%d", n), "stl", d, []Field{{Off: 80, Len: 4, Kind: "u32le", Role: "count"}})
	}
	// binary STL whose 80-byte header starts with "solid" (common in the wild).
	{
		d := append([]byte(nil), model3d.EncodeSTL(smallMesh(3))...)
		copy(d, "solid binary-with-solid-prefix")
		add("stl_bin_solid_3", "stl", d, []Field{{Off: 80, Len: 4, Kind: "u32le", Role: "count"}})
	}
	for _, n := range []int{1, 3} {
		d := asciiSTL(n, n == 1)
		add(fmt.Sprintf("stl_ascii_%d", n), "stl", d, tokenFields(d))
	}
	// files longer than bufio's 4096-byte buffer: refill boundaries fall inside records
	{
		d := model3d.EncodeSTL(smallMesh(100))
		add("stl_bin_100", "stl", d, []Field{{Off: 80, Len: 4, Kind: "u32le", Role: "count"}})
		d = asciiSTL(30, true)
		add("stl_ascii_30", "stl", d, nil)
		d = model3d.EncodePLY(smallMesh(60), colorOf)
		add("ply_mesh_60", "plymesh", d, nil)
		var b strings.Builder
		b.WriteString("OFF\n300 100 0\n")
		for i := 0; i < 300; i++ {
			fmt.Fprintf(&b, "%d %d.25 -%d\n", i%17, i%5, i%3)
		}
		for i := 0; i < 100; i++ {
			fmt.Fprintf(&b, "3 %d %d %d\n", i*3, i*3+1, i*3+2)
		}
		add("off_300", "off", []byte(b.String()), nil)
	}
	{
		d := model3d.EncodeSTL(smallMesh(1400)) // 70 KiB: beyond a 64 KiB buffer
		add("stl_bin_1400", "stl", d, []Field{{Off: 80, Len: 4, Kind: "u32le", Role: "count"}})
		c[len(c)-1].Big = true
		d = model3d.EncodePLY(smallMesh(700), colorOf) // ~80 KiB of text
		add("ply_mesh_700", "plymesh", d, nil)
		c[len(c)-1].Big = true
	}
	{
		// more vertex lines than any capacity clamp a reader may apply to the declared
		// count (65536 is the usual one): the header counts are fields, so the
		// count faults (huge, negative, 64-bit limits) hit a file that really is long
		var b strings.Builder
		b.WriteString("OFF\n66000 2 0\n")
		hdr := b.Len()
		for i := 0; i < 66000; i++ {
			b.WriteString([]string{"0 0 0\n", "1 0 0\n", "0 1 0\n", "0 0 1\n", "2 2 1\n"}[i%5])
		}
		b.WriteString("3 0 1 2\n3 65997 65998 65999\n")
		d := []byte(b.String())
		add("off_66000", "off", d, tokenFields(d[:hdr]))
		c[len(c)-1].Big, c[len(c)-1].Huge = true, true
	}
	d := offTetra(false)
	add("off_tetra", "off", d, tokenFields(d))
	d = offTetra(true)
	add("off_tetra_sameline", "off", d, tokenFields(d))
	// near-valid files: the OFF family has keyword prefixes (COFF, NOFF, STOFF, 4OFF,
	// nOFF ...) for extra vertex columns.  A reader may reject or accept them; the
	// neighbourhood of such a file (short lines, bad counts) must not crash it either.
	for _, kw := range []string{"COFF", "NOFF", "STOFF", "4OFF", "CNOFF", "nOFF"} {
		v := append([]byte(kw[:len(kw)-3]), offTetra(false)...)
		add("off_tetra_"+kw, "off", v, tokenFields(v))
		w := []byte(kw + "\n4 4 6\n0 0 0 1 0 0\n1 0 0 0 1 0\n0 1 0 0 0 1\n0 0 1.5 1 1 1\n3 0 2 1\n3 0 1 3\n3 1 2 3\n3 0 3 2\n")
		add("off_tetra6_"+kw, "off", w, tokenFields(w))
	}
	d = offCube()
	add("off_cube_quads", "off", d, tokenFields(d))
	// OFF files in the wild carry edges as 2-vertex faces and stray points as 1-vertex faces.
	d = []byte("OFF\n4 3 0\n0 0 0\n1 0 0\n0 1 0\n0 0 1\n3 0 1 2\n2 0 3\n1 2\n")
	add("off_with_digon", "off", d, tokenFields(d))
	// vertex lines that also read as face lines (a reader that loses its place
	// after a fault in the vertex block takes "2 1 0" for a 2-vertex face)
	d = []byte("OFF\n6 2 0\n2 0 1\n2 1 0\n2 3 1\n2 1 3\n2 5 4\n2 4 5\n3 0 1 2\n3 3 4 5\n")
	add("off_intverts", "off", d, tokenFields(d))
	for _, n := range []int{0, 1, 4} {
		d := model3d.EncodePLY(smallMesh(n), colorOf)
		add(fmt.Sprintf("ply_mesh_%d", n), "plymesh", d, tokenFields(d))
	}
	// a coloured mesh whose face element carries further properties after the index
	// list (texture coordinates, flags): accepted by the mesh reader, which must
	// look at the index list only
	for _, fm := range []fileformats.PLYFormat{fileformats.PLYFormatASCII, fileformats.PLYFormatBinaryLittle} {
		h := &fileformats.PLYHeader{Format: fm, Elements: []*fileformats.PLYElement{
			{Name: "vertex", Count: 4, Properties: []*fileformats.PLYProperty{
				{Name: "x", ElemType: fileformats.PLYPropertyTypeFloat}, {Name: "y", ElemType: fileformats.PLYPropertyTypeFloat}, {Name: "z", ElemType: fileformats.PLYPropertyTypeFloat},
				{Name: "red", ElemType: fileformats.PLYPropertyTypeUchar}, {Name: "green", ElemType: fileformats.PLYPropertyTypeUchar}, {Name: "blue", ElemType: fileformats.PLYPropertyTypeUchar}}},
			{Name: "face", Count: 2, Properties: []*fileformats.PLYProperty{
				{Name: "vertex_index", LenType: fileformats.PLYPropertyTypeUchar, ElemType: fileformats.PLYPropertyTypeInt},
				{Name: "flags", ElemType: fileformats.PLYPropertyTypeUchar},
				{Name: "texcoord", LenType: fileformats.PLYPropertyTypeUchar, ElemType: fileformats.PLYPropertyTypeFloat}}},
		}}
		var buf bytes.Buffer
		w, err := fileformats.NewPLYWriter(&buf, h)
		if err != nil {
			panic(err)
		}
		f32 := func(v float32) fileformats.PLYValue { return fileformats.PLYValueFloat32{Value: v} }
		u8 := func(v uint8) fileformats.PLYValue { return fileformats.PLYValueUint8{Value: v} }
		i32 := func(v int32) fileformats.PLYValue { return fileformats.PLYValueInt32{Value: v} }
		for i := 0; i < 4; i++ {
			if err := w.Write([]fileformats.PLYValue{f32(float32(i & 1)), f32(float32(i >> 1)), f32(0.5 * float32(i)), u8(uint8(10 * i)), u8(200), u8(7)}); err != nil {
				panic(err)
			}
		}
		for i := 0; i < 2; i++ {
			row := []fileformats.PLYValue{
				fileformats.PLYValueList{Length: u8(3), Values: []fileformats.PLYValue{i32(0), i32(int32(1 + i)), i32(int32(2 + i))}},
				u8(uint8(i)),
				fileformats.PLYValueList{Length: u8(2), Values: []fileformats.PLYValue{f32(0.25), f32(0.75)}}}
			if err := w.Write(row); err != nil {
				panic(err)
			}
		}
		d := append([]byte(nil), buf.Bytes()...)
		fields := tokenFields(d[:asciiEnd(d)])
		if fm == fileformats.PLYFormatASCII {
			fields = tokenFields(d)
		}
		add(fmt.Sprintf("ply_mesh_faceprops_%d", int(fm)), "plymesh", d, fields)
	}
	// mesh PLY files as other programs lay them out: columns in another order or
	// only some of them, the vertices in two blocks with different layouts (every
	// block a "standard" vertex element as far as the mesh reader is concerned), the
	// faces first, two face blocks, a foreign element in between
	for _, fm := range []fileformats.PLYFormat{fileformats.PLYFormatASCII, fileformats.PLYFormatBinaryLittle} {
		for li, layout := range plyMeshLayouts {
			d := plyMeshLayout(fm, layout)
			fields := tokenFields(d[:asciiEnd(d)])
			if fm == fileformats.PLYFormatASCII {
				fields = tokenFields(d)
			}
			add(fmt.Sprintf("ply_mesh_layout%d_%d", li, int(fm)), "plymesh", d, fields)
		}
	}
	for _, f := range []fileformats.PLYFormat{fileformats.PLYFormatASCII, fileformats.PLYFormatBinaryLittle, fileformats.PLYFormatBinaryBig} {
		d, fields := genericPLY(f)
		hdr := tokenFields(d[:asciiEnd(d)])
		if f == fileformats.PLYFormatASCII {
			fields = tokenFields(d)
		} else {
			fields = append(hdr, fields...)
		}
		add(fmt.Sprintf("ply_generic_%d", int(f)), "plygen", d, fields)
	}
	{
		// an element that declares no properties (legal grammar, zero bytes per row in binary)
		for _, fm := range []string{"ascii", "binary_little_endian"} {
			hdr := "ply\nformat " + fm + " 1.0\nelement marker 2\nelement vertex 2\nproperty uchar q\nend_header\n"
			body := "\n\n7\n9\n"
			if fm != "ascii" {
				body = "\x07\x09"
			}
			d := []byte(hdr + body)
			add("ply_noprop_"+fm, "plygen", d, tokenFields(d[:asciiEnd(d)]))
		}
	}
	{
		m := model2d.NewMesh()
		m.Add(&model2d.Segment{model2d.XY(0, 0), model2d.XY(1, 0.5)})
		m.Add(&model2d.Segment{model2d.XY(1, 0.5), model2d.XY(-2.25, 1e-7)})
		m.Add(&model2d.Segment{model2d.XY(-2.25, 1e-7), model2d.XY(0, 0)})
		d := model2d.EncodeCSV(m)
		// EncodeCSV iterates a Go map: sort the lines so the corpus is a pure function of nothing.
		lines := strings.Split(strings.TrimSuffix(string(d), "\n"), "\n")
		sortStrings(lines)
		d = []byte(strings.Join(lines, "\n") + "\n")
		add("csv_3", "csv", d, tokenFields(d))
	}
	return c
}

// plyBlock is one element of a mesh PLY layout: "vertex" with its columns in the
// given order, "face", or a foreign element.
type plyBlock struct {
	Name string
	Cols []string
	Rows int
}

var plyMeshLayouts = [][]plyBlock{
	{{"vertex", []string{"red", "green", "blue", "x", "y", "z"}, 4}, {"face", nil, 2}},
	{{"vertex", []string{"x", "y", "z"}, 4}, {"face", nil, 2}},
	{{"vertex", []string{"z", "blue", "x"}, 4}, {"face", nil, 2}},
	{{"vertex", []string{"x", "y", "z"}, 2}, {"vertex", []string{"x", "y", "z", "red", "green", "blue"}, 2}, {"face", nil, 2}},
	{{"vertex", []string{"x", "y", "z", "red", "green", "blue"}, 2}, {"vertex", []string{"red", "green", "blue", "x", "y", "z"}, 2}, {"face", nil, 2}},
	{{"vertex", []string{"x", "y", "z", "red", "green", "blue"}, 3}, {"vertex", []string{"y"}, 1}, {"face", nil, 2}},
	{{"face", nil, 2}, {"vertex", []string{"x", "y", "z", "red", "green", "blue"}, 4}},
	{{"vertex", []string{"x", "y", "z", "red", "green", "blue"}, 4}, {"face", nil, 1}, {"edge", nil, 2}, {"face", nil, 1}},
	{{"edge", nil, 1}, {"vertex", []string{"x", "y", "z", "red", "green", "blue"}, 2}, {"edge", nil, 1}, {"vertex", []string{"x", "y", "z", "red", "green", "blue"}, 2}, {"face", nil, 2}},
}

func plyMeshLayout(fm fileformats.PLYFormat, blocks []plyBlock) []byte {
	f32 := func(v float32) fileformats.PLYValue { return fileformats.PLYValueFloat32{Value: v} }
	u8 := func(v uint8) fileformats.PLYValue { return fileformats.PLYValueUint8{Value: v} }
	i32 := func(v int32) fileformats.PLYValue { return fileformats.PLYValueInt32{Value: v} }
	h := &fileformats.PLYHeader{Format: fm}
	for _, b := range blocks {
		e := &fileformats.PLYElement{Name: b.Name, Count: int64(b.Rows)}
		switch b.Name {
		case "vertex":
			for _, c := range b.Cols {
				var t fileformats.PLYPropertyType = fileformats.PLYPropertyTypeFloat
				if len(c) > 1 {
					t = fileformats.PLYPropertyTypeUchar
				}
				e.Properties = append(e.Properties, &fileformats.PLYProperty{Name: c, ElemType: t})
			}
		case "face":
			e.Properties = []*fileformats.PLYProperty{{Name: "vertex_index", LenType: fileformats.PLYPropertyTypeUchar, ElemType: fileformats.PLYPropertyTypeInt}}
		default:
			e.Properties = []*fileformats.PLYProperty{{Name: "vertex1", ElemType: fileformats.PLYPropertyTypeInt}, {Name: "vertex2", ElemType: fileformats.PLYPropertyTypeInt}}
		}
		h.Elements = append(h.Elements, e)
	}
	var buf bytes.Buffer
	w, err := fileformats.NewPLYWriter(&buf, h)
	if err != nil {
		panic(err)
	}
	nv, nf := 0, 0
	for _, b := range blocks {
		for i := 0; i < b.Rows; i++ {
			var row []fileformats.PLYValue
			switch b.Name {
			case "vertex":
				for _, c := range b.Cols {
					switch c {
					case "x":
						row = append(row, f32(float32(nv&1)))
					case "y":
						row = append(row, f32(float32(nv>>1)))
					case "z":
						row = append(row, f32(0.5*float32(nv)))
					default:
						row = append(row, u8(uint8(10*nv+len(c))))
					}
				}
				nv++
			case "face":
				row = []fileformats.PLYValue{fileformats.PLYValueList{Length: u8(3), Values: []fileformats.PLYValue{i32(0), i32(int32(1 + nf)), i32(int32(2 + nf))}}}
				nf++
			default:
				row = []fileformats.PLYValue{i32(int32(i)), i32(int32(i + 1))}
			}
			if err := w.Write(row); err != nil {
				panic(err)
			}
		}
	}
	return append([]byte(nil), buf.Bytes()...)
}

func sortStrings(s []string) {
	for i := 1; i < len(s); i++ {
		for j := i; j > 0 && s[j] < s[j-1]; j-- {
			s[j], s[j-1] = s[j-1], s[j]
		}
	}
}
