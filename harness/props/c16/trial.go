package c16

import (
	"encoding/binary"
	"fmt"
	"regexp"
	"runtime"
	"strings"
	"time"

	"verif/harness/choice"
	"verif/harness/simio"
)

// Case is one replayable trial: decoder, the exact bytes served and how.
type Case struct {
	Property string         `json:"property"`
	Engine   string         `json:"engine"`
	Decoder  string         `json:"decoder"`
	File     string         `json:"file"`
	Faults   []string       `json:"faults"`
	Data     []byte         `json:"data_b64"`
	Delivery simio.Delivery `json:"delivery"`
}

type Result struct {
	Kind   string // "" ok | panic | spin | noprogress | mem | slow
	Sig    string
	Msg    string
	Rows   int
	Err    string
	Reader *simio.Reader
	Growth int64
	Creep  int64
	Dur    time.Duration
}

var digits = regexp.MustCompile(`[0-9]+`)

func msgClass(s string) string {
	s = digits.ReplaceAllString(s, "N")
	if len(s) > 80 {
		s = s[:80]
	}
	return s
}

func topRepoFrame() string {
	pcs := make([]uintptr, 64)
	n := runtime.Callers(3, pcs)
	frames := runtime.CallersFrames(pcs[:n])
	for {
		f, more := frames.Next()
		if strings.Contains(f.Function, "github.com/unixpickle/model3d/") {
			fn := strings.TrimPrefix(f.Function, "github.com/unixpickle/model3d/")
			return fn
		}
		if !more {
			return "?"
		}
	}
}

// MemBound is the allowed growth of the heap high-water mark for an input of n bytes.
func MemBound(n int) int64 { return 8<<20 + 256*int64(n) }

// TimeBound per trial; hangs beyond it are handled by the watchdog.
const TimeBound = 20 * time.Second

// Run executes one case in-process.  Growth is the rise of the heap high-water
// mark (HeapSys) during this trial; Creep its rise since the worker's baseline
// (the worker restarts itself when creep could start masking allocations).
func Run(c *Case, baseSys uint64) (res Result) {
	d := DecoderByName(c.Decoder)
	if d == nil {
		panic("unknown decoder " + c.Decoder)
	}
	rd := simio.NewReader(c.Data, c.Delivery)
	res.Reader = rd
	var ms runtime.MemStats
	runtime.ReadMemStats(&ms)
	before := ms.HeapSys
	start := time.Now()
	func() {
		defer func() {
			if r := recover(); r != nil {
				switch v := r.(type) {
				case simio.SpinPanic:
					res.Kind = "spin"
					res.Msg = fmt.Sprintf("%s (calls=%d after-terminal=%d)", v.Reason, v.Calls, v.AfterTerminal)
					res.Sig = "spin|" + c.Decoder
				case NoProgress:
					res.Kind = "noprogress"
					res.Msg = fmt.Sprintf("caller loop received %d rows from %d input bytes without EOF", v.Rows, len(c.Data))
					res.Sig = "noprogress|" + c.Decoder
				default:
					frame := topRepoFrame()
					res.Kind = "panic"
					res.Msg = fmt.Sprint(r)
					res.Sig = "panic|" + frame + "|" + msgClass(fmt.Sprint(r))
				}
			}
		}()
		rows, err := d.Run(rd, len(c.Data))
		res.Rows = rows
		if err != nil {
			res.Err = err.Error()
		}
	}()
	res.Dur = time.Since(start)
	runtime.ReadMemStats(&ms)
	if ms.HeapSys > before {
		res.Growth = int64(ms.HeapSys - before)
	}
	res.Creep = int64(ms.HeapSys) - int64(baseSys)
	if res.Kind == "" && res.Growth > MemBound(len(c.Data)) {
		res.Kind = "mem"
		res.Msg = fmt.Sprintf("heap high-water mark grew by %d bytes for a %d-byte input (bound %d)", res.Growth, len(c.Data), MemBound(len(c.Data)))
		res.Sig = "mem|" + c.Decoder
	}
	if res.Kind == "" && res.Dur > TimeBound {
		res.Kind = "slow"
		res.Msg = fmt.Sprintf("took %v for %d bytes", res.Dur, len(c.Data))
		res.Sig = "slow|" + c.Decoder
	}
	return
}

// ---------------------------------------------------------------- enumeration

var byteRepl = []func(b byte) byte{
	func(byte) byte { return 0x00 }, func(byte) byte { return 0xFF }, func(byte) byte { return '-' },
	func(byte) byte { return '9' }, func(byte) byte { return ' ' }, func(byte) byte { return '\n' },
	func(b byte) byte { return b ^ 0x80 },
}

// oddSpaces: white space in the eyes of unicode.IsSpace (strings.Fields, TrimSpace)
// but not of a byte-wise ASCII test, and vice versa.
var oddSpaces = []string{"\u00a0", "\u3000", "\u0085", "\u2028", " \u00a0 ", "\v\f", "\ufeff", "\x1c\x1f"}

var allBytes = func() []func(b byte) byte {
	var fs []func(b byte) byte
	for v := 0; v < 256; v++ {
		v := byte(v)
		fs = append(fs, func(byte) byte { return v })
	}
	return fs
}()

// headerWords: every word of a PLY header is replaced by each of these.
var headerWords = []string{"ply", "format", "ascii", "binary_little_endian", "binary_big_endian", "1.0", "comment", "obj_info",
	"element", "property", "list", "end_header", "vertex", "face", "vertex_index", "x", "red",
	"char", "uchar", "short", "ushort", "int", "uint", "float", "double",
	"int8", "uint8", "int16", "uint16", "int32", "uint32", "float32", "float64", "0", "-1", "4294967296", "",
	// names a reader might come to accept one day (the value types exist in the package)
	"int64", "uint64", "long", "ulong", "float16", "half", "bool", "string", "LIST", "Float"}

// reduced replacement sets for pairs of fields
var pairTokens = []string{"0", "-1", "4294967296"}

func pairValues(f Field, orig []byte) [][]byte {
	if f.Kind == "token" {
		var out [][]byte
		for _, t := range pairTokens {
			out = append(out, []byte(t))
		}
		return out
	}
	vs := fieldValues(f, orig)
	// 0, max, sign bit (fieldValues order: 0, 1, cur+1, cur-1, max, max-1, max>>1, (max>>1)+1, ...)
	var out [][]byte
	seen := map[string]bool{}
	zero := make([]byte, f.Len)
	ff := make([]byte, f.Len)
	for i := range ff {
		ff[i] = 0xff
	}
	for _, v := range vs {
		k := string(v)
		if (k == string(zero) || k == string(ff) || len(out) < 3 && v[0]&0x7f == 0 && (v[0] == 0x80 || v[len(v)-1] == 0x80)) && !seen[k] {
			seen[k] = true
			out = append(out, v)
		}
	}
	return out
}

func wordFields(data []byte) []Field {
	var fields []Field
	i := 0
	for i < len(data) {
		for i < len(data) && (data[i] == ' ' || data[i] == '\n' || data[i] == '\t' || data[i] == '\r') {
			i++
		}
		j := i
		for j < len(data) && !(data[j] == ' ' || data[j] == '\n' || data[j] == '\t' || data[j] == '\r') {
			j++
		}
		if j > i {
			fields = append(fields, Field{Off: i, Len: j - i, Kind: "token", Role: "word"})
		}
		i = j
	}
	return fields
}

var tokenRepl = []string{"0", "1", "-1", "2", "255", "256", "65536", "2147483647", "2147483648", "4294967295",
	"4294967296", "9223372036854775807", "-9223372036854775808", "1e9", "nan", "x", "1000000", "100000000", "-0", "",
	"+5", "0x10", "1.5", "1e400", "-1e400", "1e-400", "Inf", "-inf", "NaN", ".", "-", "1_000", "0000000000000000000000000000000000000003",
	"99999999999999999999999999999999999999999999999999999999999999999999999999999999", "3\x00", "\xff\xfe",
	// around the 64-bit limits: values that only fit an unsigned parse wrap when narrowed
	"9223372036854775808", "18446744073709551615", "18446744073709551616", "-9223372036854775809", "4294967297", "-2147483649"}

func fieldValues(f Field, orig []byte) [][]byte {
	var out [][]byte
	put := func(v uint64) {
		b := make([]byte, f.Len)
		switch f.Kind {
		case "u8", "i8":
			b[0] = byte(v)
		case "u16le", "i16le":
			binary.LittleEndian.PutUint16(b, uint16(v))
		case "u16be", "i16be":
			binary.BigEndian.PutUint16(b, uint16(v))
		case "u32le", "i32le":
			binary.LittleEndian.PutUint32(b, uint32(v))
		case "u32be", "i32be":
			binary.BigEndian.PutUint32(b, uint32(v))
		}
		out = append(out, b)
	}
	var cur uint64
	switch f.Len {
	case 1:
		cur = uint64(orig[0])
	case 2:
		if strings.HasSuffix(f.Kind, "be") {
			cur = uint64(binary.BigEndian.Uint16(orig))
		} else {
			cur = uint64(binary.LittleEndian.Uint16(orig))
		}
	case 4:
		if strings.HasSuffix(f.Kind, "be") {
			cur = uint64(binary.BigEndian.Uint32(orig))
		} else {
			cur = uint64(binary.LittleEndian.Uint32(orig))
		}
	}
	bits := uint(8 * f.Len)
	max := uint64(1)<<bits - 1
	for _, v := range []uint64{0, 1, cur + 1, cur - 1, max, max - 1, max >> 1, (max >> 1) + 1, 1 << 24 & max, 1 << 20 & max, 100000 & max} {
		if v&max != cur {
			put(v & max)
		}
	}
	return out
}

// deliveries used for clean files and truncations; corruptions get one, chosen by hash.
func deliveryModes(n int, h uint64) []simio.Delivery {
	k := 0
	if n > 0 {
		k = int(h % uint64(n))
	}
	return []simio.Delivery{
		{},
		{MaxFrag: 1},
		{MaxFrag: 7, FragSeed: h},
		{MaxFrag: 64, FragSeed: h, ZeroEvery: 3},
		{DataEOF: true},
		{MaxFrag: 13, FragSeed: h, DataEOF: true, ZeroEvery: 5},
		{HasErr: true, ErrAt: k},
		{HasErr: true, ErrAt: k, ErrTransient: true, MaxFrag: 5, FragSeed: h},
	}
}

func deliveryName(d simio.Delivery) string {
	var p []string
	if d.MaxFrag > 0 {
		p = append(p, fmt.Sprintf("FRAG<=%d", d.MaxFrag))
	}
	if d.ZeroEvery > 0 {
		p = append(p, "ZERO")
	}
	if d.DataEOF {
		p = append(p, "DATA+EOF")
	}
	if d.HasErr {
		if d.ErrTransient {
			p = append(p, fmt.Sprintf("R-ERR-TRANSIENT@%d", d.ErrAt))
		} else {
			p = append(p, fmt.Sprintf("R-ERR@%d", d.ErrAt))
		}
	}
	return strings.Join(p, "+")
}

// Enumerate calls visit(idx, faultKind, mk) for every trial of the tier in a
// fixed order; mk builds the case lazily so shards skip cheaply.
func Enumerate(corpus []*CorpusFile, tier string, seed uint64, visit func(idx int, kind string, mk func() *Case)) int {
	idx := 0
	emit := func(kind string, mk func() *Case) {
		visit(idx, kind, mk)
		idx++
	}
	mkCase := func(dec *Decoder, f *CorpusFile, data []byte, faults []string, d simio.Delivery) *Case {
		if n := deliveryName(d); n != "" {
			faults = append(faults, n)
		}
		return &Case{Property: "C16", Engine: "simio", Decoder: dec.Name, File: f.Name, Faults: faults, Data: data, Delivery: d}
	}
	// every file to every decoder of the OTHER formats as well (arbitrary bytes with a
	// foreign structure), whole and cut at a stride
	for _, f := range corpus {
		f := f
		for di := range Decoders {
			dec := &Decoders[di]
			own := false
			for _, k := range dec.Kinds {
				own = own || k == f.Kind || k == "plyhdr" && (f.Kind == "plymesh" || f.Kind == "plygen")
			}
			if own {
				continue
			}
			hseed := choice.Derive(seed, "cross|"+f.Name+"|"+dec.Name)
			stride := 13
			if f.Big {
				stride = 4099
			}
			if f.Huge {
				stride = 131101
			}
			for k := len(f.Data); k >= 0; k -= stride {
				k := k
				d := deliveryModes(k, choice.Derive(hseed, fmt.Sprint(k)))[int(choice.Derive(hseed, fmt.Sprint("m", k))%6)]
				emit("CROSS", func() *Case {
					return mkCase(dec, f, f.Data[:k], []string{fmt.Sprintf("FOREIGN-FORMAT(%s)", f.Kind), fmt.Sprintf("TRUNC@%d", k)}, d)
				})
			}
		}
	}
	for _, f := range corpus {
		f := f
		kinds := []string{f.Kind}
		if f.Kind == "plymesh" || f.Kind == "plygen" {
			kinds = append(kinds, "plyhdr")
		}
		for _, kind := range kinds {
			base := f.Data
			fields := f.Fields
			if kind == "plyhdr" {
				base = f.Data[:asciiEnd(f.Data)]
				fields = tokenFields(base)
			}
			for _, dec := range DecodersFor(kind) {
				dec := dec
				hseed := choice.Derive(seed, f.Name+"|"+dec.Name)
				// clean file under every delivery
				for _, d := range deliveryModes(len(base), hseed) {
					d := d
					emit("CLEAN", func() *Case { return mkCase(dec, f, base, nil, d) })
				}
				// every truncation point, under 3 rotating deliveries
				for k := 0; k < len(base); k++ {
					k := k
					if !keepOffset(f, k, len(base)) {
						continue
					}
					modes := deliveryModes(k, choice.Derive(hseed, fmt.Sprint("t", k)))
					for _, mi := range []int{0, 1 + k%3, 4 + k%4} {
						d := modes[mi]
						emit("TRUNC", func() *Case { return mkCase(dec, f, base[:k], []string{fmt.Sprintf("TRUNC@%d", k)}, d) })
					}
				}
				// an I/O error at every offset (persistent; every third offset also
				// transient, fragmented): the stream fails exactly at every record,
				// line and token boundary
				for k := 0; k <= len(base); k++ {
					k := k
					if !keepOffset(f, k, len(base)) {
						continue
					}
					emit("R-ERR-AT", func() *Case {
						return mkCase(dec, f, base, []string{fmt.Sprintf("R-ERR@%d", k)}, simio.Delivery{HasErr: true, ErrAt: k})
					})
					if k%3 == 0 {
						emit("R-ERR-AT", func() *Case {
							return mkCase(dec, f, base, []string{fmt.Sprintf("R-ERR-TRANSIENT@%d", k)},
								simio.Delivery{HasErr: true, ErrAt: k, ErrTransient: true, MaxFrag: 7, FragSeed: choice.Derive(hseed, fmt.Sprint("e", k))})
						})
					}
				}
				// every single-byte replacement (thorough: by every one of the 256 values)
				repls := byteRepl
				if tier == "thorough" && len(base) <= 2048 {
					repls = allBytes
				}
				for k := 0; k < len(base); k++ {
					if f.Big && !(k < 300 || k%211 == 0) || f.Huge && k >= 64 {
						continue
					}
					for ri, rf := range repls {
						k, ri := k, ri
						nb := rf(base[k])
						if nb == base[k] {
							continue
						}
						h := choice.Derive(hseed, fmt.Sprint("b", k, ri))
						modes := deliveryModes(len(base), h)
						d := modes[0]
						if h%4 == 0 {
							d = modes[1+int((h>>8)%7)]
						}
						emit("FLIP", func() *Case {
							data := append([]byte(nil), base...)
							data[k] = nb
							return mkCase(dec, f, data, []string{fmt.Sprintf("BYTE@%d=%#02x", k, nb)}, d)
						})
					}
				}
				// every line deleted / duplicated (ASCII part only)
				for li, ln := range lineSpans(base[:asciiPart(kind, f, base)]) {
					ln := ln
					if f.Big && li > 40 && li%53 != 0 || f.Huge && li > 4 {
						continue
					}
					for _, dup := range []bool{false, true} {
						dup := dup
						h := choice.Derive(hseed, fmt.Sprint("l", li, dup))
						modes := deliveryModes(len(base), h)
						d := modes[0]
						if h%4 == 0 {
							d = modes[1+int((h>>8)%7)]
						}
						emit("LINE", func() *Case {
							data := append([]byte(nil), base[:ln[0]]...)
							name := "LINE-DEL"
							if dup {
								data = append(data, base[ln[0]:ln[1]]...)
								data = append(data, base[ln[0]:ln[1]]...)
								name = "LINE-DUP"
							}
							data = append(data, base[ln[1]:]...)
							return mkCase(dec, f, data, []string{fmt.Sprintf("%s@%d", name, ln[0])}, d)
						})
					}
				}
				// every line replaced by, or given a neighbour line made of, white space
				// that only some routines recognise (Unicode spaces, BOM, vertical tab)
				for li, ln := range lineSpans(base[:asciiPart(kind, f, base)]) {
					ln := ln
					if f.Big && li > 40 && li%53 != 0 || f.Huge && li > 4 {
						continue
					}
					for wi, ws := range oddSpaces {
						ws := ws
						for _, insert := range []bool{false, true} {
							insert := insert
							h := choice.Derive(hseed, fmt.Sprint("ws", li, wi, insert))
							modes := deliveryModes(len(base), h)
							d := modes[0]
							if h%4 == 0 {
								d = modes[1+int((h>>8)%7)]
							}
							emit("ODD-SPACE", func() *Case {
								data := append([]byte(nil), base[:ln[0]]...)
								data = append(data, ws...)
								data = append(data, '\n')
								if insert {
									data = append(data, base[ln[0]:]...)
								} else {
									data = append(data, base[ln[1]:]...)
								}
								return mkCase(dec, f, data, []string{fmt.Sprintf("ODD-SPACE-LINE@%d=%q insert=%v", ln[0], ws, insert)}, d)
							})
						}
					}
				}
				// every structurally located field
				for fi, fl := range fields {
					fl := fl
					if fl.Off+fl.Len > len(base) {
						continue
					}
					var repl [][]byte
					if fl.Kind == "token" {
						for _, t := range tokenRepl {
							repl = append(repl, []byte(t))
						}
					} else {
						repl = fieldValues(fl, base[fl.Off:fl.Off+fl.Len])
					}
					for ri, rv := range repl {
						rv := rv
						h := choice.Derive(hseed, fmt.Sprint("f", fi, ri))
						modes := deliveryModes(len(base), h)
						d := modes[0]
						if h%4 == 0 {
							d = modes[1+int((h>>8)%7)]
						}
						emit("FIELD", func() *Case {
							data := append([]byte(nil), base[:fl.Off]...)
							data = append(data, rv...)
							data = append(data, base[fl.Off+fl.Len:]...)
							return mkCase(dec, f, data, []string{fmt.Sprintf("FIELD@%d(%s,%s)=%q", fl.Off, fl.Kind, fl.Role, rv)}, d)
						})
					}
				}
				// every word of a PLY header replaced by every keyword / type name
				if kind == "plyhdr" || kind == "plygen" || kind == "plymesh" {
					for wi, fl := range wordFields(base[:asciiEnd(base)]) {
						fl := fl
						for ri, word := range headerWords {
							word := word
							if string(base[fl.Off:fl.Off+fl.Len]) == word {
								continue
							}
							h := choice.Derive(hseed, fmt.Sprint("w", wi, ri))
							modes := deliveryModes(len(base), h)
							d := modes[0]
							if h%4 == 0 {
								d = modes[1+int((h>>8)%7)]
							}
							emit("WORD", func() *Case {
								data := append([]byte(nil), base[:fl.Off]...)
								data = append(data, word...)
								data = append(data, base[fl.Off+fl.Len:]...)
								return mkCase(dec, f, data, []string{fmt.Sprintf("WORD@%d=%q", fl.Off, word)}, d)
							})
						}
					}
				}
				// pairs of fields: a structural one (among the first eight of the file,
				// or a binary list length / count) together with any later or earlier
				// one, each replaced by 0 / -1 or all-ones / just past the signed range.
				// quick: the half of the pairs selected by a hash; thorough: all.
				for fi, fa := range fields {
					if !(fi < 8 || fa.Role == "listlen" || fa.Role == "count") || fa.Off+fa.Len > len(base) {
						continue
					}
					fa := fa
					va := pairValues(fa, base[fa.Off:fa.Off+fa.Len])
					for fj, fb := range fields {
						if fj == fi || fb.Off+fb.Len > len(base) || fb.Off < fa.Off+fa.Len && fa.Off < fb.Off+fb.Len {
							continue
						}
						if (fj < 8 || fb.Role == "listlen" || fb.Role == "count") && fj < fi {
							continue // unordered pair of two structural fields: once
						}
						fb := fb
						vb := pairValues(fb, base[fb.Off:fb.Off+fb.Len])
						for ai, ra := range va {
							for bi, rb := range vb {
								ra, rb := ra, rb
								h := choice.Derive(hseed, fmt.Sprint("p", fi, fj, ai, bi))
								if tier != "thorough" && h%2 != 0 {
									continue
								}
								modes := deliveryModes(len(base), h)
								d := modes[0]
								if h%8 == 0 {
									d = modes[1+int((h>>8)%7)]
								}
								emit("PAIR", func() *Case {
									first, second, r1, r2 := fa, fb, ra, rb
									if fb.Off < fa.Off {
										first, second, r1, r2 = fb, fa, rb, ra
									}
									data := append([]byte(nil), base[:first.Off]...)
									data = append(data, r1...)
									data = append(data, base[first.Off+first.Len:second.Off]...)
									data = append(data, r2...)
									data = append(data, base[second.Off+second.Len:]...)
									return mkCase(dec, f, data, []string{fmt.Sprintf("FIELD@%d=%q", fa.Off, ra), fmt.Sprintf("FIELD@%d=%q", fb.Off, rb)}, d)
								})
							}
						}
					}
				}
			}
		}
	}
	return idx
}

// keepOffset: for a Big file, is offset k one of the enumerated ones?  Near every
// multiple of 4096 and of 65536, near both ends, and every 97th offset.
func keepOffset(f *CorpusFile, k, n int) bool {
	if !f.Big {
		return true
	}
	if f.Huge {
		if k < 64 || k > n-64 {
			return true
		}
		r := k % 65536
		return r < 2 || r > 65536-2
	}
	if k < 300 || k > n-300 || k%97 == 0 {
		return true
	}
	for _, b := range []int{4096, 65536} {
		if r := k % b; r < 24 || r > b-24 {
			return true
		}
	}
	return false
}

func lineSpans(b []byte) [][2]int {
	var res [][2]int
	st := 0
	for i, c := range b {
		if c == '\n' {
			res = append(res, [2]int{st, i + 1})
			st = i + 1
		}
	}
	if st < len(b) {
		res = append(res, [2]int{st, len(b)})
	}
	return res
}

// asciiPart is the length of the line-structured prefix of a file.
func asciiPart(kind string, f *CorpusFile, base []byte) int {
	if f.Binary {
		if kind == "plygen" || kind == "plymesh" || kind == "plyhdr" {
			return asciiEnd(base)
		}
		return 0
	}
	return len(base)
}

// RandomCase draws one multi-fault trial for the thorough tier.
func RandomCase(corpus []*CorpusFile, src *choice.Source) *Case {
	f := corpus[src.Intn(len(corpus))]
	kind := f.Kind
	base := f.Data
	fields := f.Fields
	if (kind == "plymesh" || kind == "plygen") && src.Chance(1, 6) {
		kind = "plyhdr"
		base = f.Data[:asciiEnd(f.Data)]
		fields = tokenFields(base)
	}
	decs := DecodersFor(kind)
	dec := decs[src.Intn(len(decs))]
	data := append([]byte(nil), base...)
	var faults []string
	mode := src.Intn(10)
	switch {
	case mode == 0: // splice of two valid files
		g := corpus[src.Intn(len(corpus))]
		a := src.Intn(len(data) + 1)
		b := src.Intn(len(g.Data) + 1)
		data = append(append([]byte(nil), data[:a]...), g.Data[b:]...)
		faults = append(faults, fmt.Sprintf("SPLICE(%s@%d+%s@%d)", f.Name, a, g.Name, b))
	case mode == 1: // valid magic followed by random bytes
		keep := src.Intn(len(data)/2 + 1)
		n := src.Intn(200)
		data = data[:keep]
		for i := 0; i < n; i++ {
			data = append(data, byte(src.Intn(256)))
		}
		faults = append(faults, fmt.Sprintf("RANDOMTAIL@%d+%d", keep, n))
	case mode == 2: // writer crash mid-encode == durable prefix, plus later corruption
		k := src.Intn(len(data) + 1)
		data = data[:k]
		faults = append(faults, fmt.Sprintf("CRASH@%d", k))
	default:
	}
	nf := 1 + src.Intn(4)
	for i := 0; i < nf && len(data) > 0; i++ {
		switch src.Intn(4) {
		case 0:
			k := src.Intn(len(data))
			data[k] = byteRepl[src.Intn(len(byteRepl))](data[k])
			faults = append(faults, fmt.Sprintf("BYTE@%d=%#02x", k, data[k]))
		case 1:
			k := src.Intn(len(data))
			data[k] = byte(src.Intn(256))
			faults = append(faults, fmt.Sprintf("RAND@%d=%#02x", k, data[k]))
		case 2:
			if len(fields) > 0 && len(faults) == 0 || mode > 2 && len(fields) > 0 {
				// field offsets are only valid while earlier edits kept the length
				fl := fields[src.Intn(len(fields))]
				if fl.Off+fl.Len <= len(data) && len(data) == len(base) {
					var rv []byte
					if fl.Kind == "token" {
						rv = []byte(tokenRepl[src.Intn(len(tokenRepl))])
					} else {
						vs := fieldValues(fl, data[fl.Off:fl.Off+fl.Len])
						rv = vs[src.Intn(len(vs))]
					}
					nd := append([]byte(nil), data[:fl.Off]...)
					nd = append(nd, rv...)
					nd = append(nd, data[fl.Off+fl.Len:]...)
					data = nd
					faults = append(faults, fmt.Sprintf("FIELD@%d=%q", fl.Off, rv))
				}
			}
		case 3:
			k := src.Intn(len(data) + 1)
			data = data[:k]
			faults = append(faults, fmt.Sprintf("TRUNC@%d", k))
		}
	}
	modes := deliveryModes(len(data), src.U64())
	d := modes[src.Intn(len(modes))]
	if n := deliveryName(d); n != "" {
		faults = append(faults, n)
	}
	return &Case{Property: "C16", Engine: "simio", Decoder: dec.Name, File: f.Name, Faults: faults, Data: data, Delivery: d}
}
