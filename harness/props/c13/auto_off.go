//go:build verif && !autoyield

package c13

const AutoYield = false
