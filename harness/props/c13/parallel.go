//go:build verif

package c13

import (
	"verif/harness/wproto"
	"verif/harness/simsolid"
	"verif/harness/props/c12"
	"sync"
	"fmt"
	"math"
	"math/rand"
	"sort"

	"github.com/unixpickle/model3d/model2d"
	"github.com/unixpickle/model3d/model3d"
	"github.com/unixpickle/model3d/numerical"
	"github.com/unixpickle/model3d/render3d"
	"github.com/unixpickle/model3d/toolbox3d"
	"verif/harness/choice"
	"verif/harness/simsched"
)

// ---------------------------------------------------------------- k-means

// Data are dyadic rationals with few bits, so every partial sum is exact in
// float64 and the result cannot depend on the order in which workers merge.
func genVecs(src *choice.Source, n int) []numerical.Vec3 {
	out := make([]numerical.Vec3, n)
	for i := range out {
		out[i] = numerical.Vec3{float64(src.Intn(64)) / 8, float64(src.Intn(64)) / 8, float64(src.Intn(64)) / 8}
	}
	return out
}

func runKMeans(r *runner, work *choice.Source) (fs []Finding) {
	n := 1 + work.Intn(60)
	data := genVecs(work, n)
	nc := 1 + work.Intn(6)
	centers := genVecs(work, nc)
	workers := 1 + work.Intn(16)
	sticky := work.Intn(4)
	r.st.Workers = workers
	r.st.Desc = fmt.Sprintf("kmeans data=%d centers=%d workers=%d", n, nc, workers)
	run := func(workers int, ref bool) (loss float64, cs []numerical.Vec3, assign []int, f *Finding) {
		km := &numerical.KMeans[numerical.Vec3]{Centers: append([]numerical.Vec3{}, centers...), Data: data}
		body := func() {
			// one step from dyadic centres: every accumulated term is a multiple
			// of 1/64 below 2^20, so the sums are exact whatever the merge order
			loss = km.Iterate()
			assign = km.Assign(data)
		}
		if ref {
			f = r.ref(body)
		} else {
			f = r.simN(workers, sticky, nil, body)
		}
		return loss, km.Centers, assign, f
	}
	l0, c0, a0, f := run(1, true)
	if f != nil {
		return []Finding{*f}
	}
	l1, c1, a1, f := run(workers, false)
	if f != nil {
		return []Finding{*f}
	}
	if math.Float64bits(l0) != math.Float64bits(l1) || fmt.Sprint(c0) != fmt.Sprint(c1) || fmt.Sprint(a0) != fmt.Sprint(a1) {
		fs = append(fs, Finding{"kmeans|value", fmt.Sprintf("%s: 1-worker loss %v centers %v, %d-worker loss %v centers %v", r.st.Desc, l0, c0, workers, l1, c1)})
	}
	return
}

// ---------------------------------------------------------------- height map

type recSDF struct {
	inner model2d.PointSDF
	mu    simsched.Mu
	calls []sphere
	yield uint64
}

type sphere struct {
	c model2d.Coord
	r float64
}

func (s *recSDF) Min() model2d.Coord { return s.inner.Min() }
func (s *recSDF) Max() model2d.Coord { return s.inner.Max() }
func (s *recSDF) PointSDF(c model2d.Coord) (model2d.Coord, float64) {
	return s.inner.PointSDF(c)
}

//go:norace
func (s *recSDF) record(c model2d.Coord, r float64) {
	s.mu.Lock()
	s.calls = append(s.calls, sphere{c, r})
	s.mu.Unlock()
}

func (s *recSDF) SDF(c model2d.Coord) float64 {
	r := s.inner.SDF(c)
	s.record(c, r)
	if s.yield != 0 {
		simsched.Yield("sdf.sdf", int(math.Float64bits(c.X)%251))
	}
	return r
}

// runHeightMap: conservation.  AddSpheresSDF calls p.SDF exactly once per
// sphere, so the recorded (centre, radius) list is exactly what the workers
// add; the concurrent grid must equal those spheres added one after the other
// (a pointwise maximum, hence independent of order).
func runHeightMap(r *runner, work *choice.Source) (fs []Finding) {
	// a shape with a medial axis of strongly varying radius: a tapered blob
	k := 3 + work.Intn(4)
	amp := 0.2 + 0.5*work.Float()
	base := model2d.NewMeshPolar(func(theta float64) float64 { return 0.6 * (1 + amp*math.Sin(float64(k)*theta)) }, 40+work.Intn(40))
	inner := model2d.MeshToSDF(base)
	n := 2 + work.Intn(40)
	size := 8 + work.Intn(40)
	maxRadius := 0.0
	if work.Chance(1, 3) {
		maxRadius = 0.05 + 0.3*work.Float()
	}
	workers := 1 + work.Intn(16)
	sticky := work.Intn(4)
	seed := int64(work.Intn(1 << 30))
	r.st.Workers = workers
	r.st.Desc = fmt.Sprintf("heightmap spheres=%d grid=%d maxRadius=%.3f workers=%d", n, size, maxRadius, workers)
	rec := &recSDF{inner: inner, yield: uint64(work.Intn(2))}
	h := toolbox3d.NewHeightMap(inner.Min(), inner.Max(), size)
	rand.Seed(seed)
	if f := r.simN(workers, sticky, nil, func() { h.AddSpheresSDF(rec, n, 0.02, maxRadius) }); f != nil {
		return []Finding{*f}
	}
	if len(rec.calls) != n {
		fs = append(fs, Finding{"heightmap|sphere-count", fmt.Sprintf("%s: %d spheres requested, SDF evaluated %d times", r.st.Desc, n, len(rec.calls))})
		return
	}
	want := toolbox3d.NewHeightMap(inner.Min(), inner.Max(), size)
	for _, s := range rec.calls {
		if maxRadius != 0 {
			want.AddSphereFill(s.c, s.r, maxRadius)
		} else {
			want.AddSphere(s.c, s.r)
		}
	}
	bad := 0
	ex := ""
	for i := range want.Data {
		if math.Float64bits(want.Data[i]) != math.Float64bits(h.Data[i]) {
			if bad == 0 {
				ex = fmt.Sprintf("cell %d: concurrent %v, sequential %v", i, h.Data[i], want.Data[i])
			}
			bad++
		}
	}
	if bad > 0 {
		fs = append(fs, Finding{"heightmap|lost-update", fmt.Sprintf("%s: %d of %d cells differ from adding the same spheres sequentially; %s", r.st.Desc, bad, len(want.Data), ex)})
	}
	return
}

// ---------------------------------------------------------------- OBJ builders / colour functions

func runOBJBuild(r *runner, work *choice.Source) (fs []Finding) {
	tris := model3d.NewMeshIcosphere(model3d.XYZ(0, 0, 0), 1, 1).TriangleSlice()
	sort.Slice(tris, func(i, j int) bool { return t3(tris[i]) < t3(tris[j]) })
	tris = tris[:1+work.Intn(len(tris))]
	workers := 1 + work.Intn(16)
	sticky := work.Intn(4)
	r.st.Workers = workers
	r.st.Desc = fmt.Sprintf("objbuild faces=%d workers=%d", len(tris), workers)
	cf := func(t *model3d.Triangle) [3]float64 {
		simsched.Yield("color.tri", int(math.Float64bits(t[0].X)%97))
		return [3]float64{math.Round(math.Abs(t[0].X)*4) / 4, math.Round(math.Abs(t[1].Y)*2) / 2, 0.5}
	}
	vf := func(c model3d.Coord3D) [3]float64 {
		simsched.Yield("color.vertex", int(math.Float64bits(c.X)%97))
		return [3]float64{math.Abs(c.X), math.Abs(c.Y), math.Abs(c.Z)}
	}
	// a hand-made UV map: triangles 2c and 2c+1 are the lower-left and upper-right
	// halves of cell c of a k x k grid.  A texture sample that falls on a diagonal, on
	// a cell border or in an empty half is attributed by the library to "the nearest
	// triangle", which for ties depends on the Go-map order of the UV map, so only
	// pixels whose samples all lie strictly inside one triangle are compared.
	cells := (len(tris) + 1) / 2
	k := 1
	for k*k < cells {
		k++
	}
	uv := model3d.MeshUVMap{}
	d := 1 / float64(k)
	for i, t := range tris {
		c := i / 2
		x0, y0 := float64(c%k)*d, float64(c/k)*d
		if i%2 == 0 {
			uv[t] = [3]model2d.Coord{model2d.XY(x0, y0), model2d.XY(x0+d, y0), model2d.XY(x0, y0+d)}
		} else {
			uv[t] = [3]model2d.Coord{model2d.XY(x0+d, y0), model2d.XY(x0+d, y0+d), model2d.XY(x0, y0+d)}
		}
	}
	texColor := toolbox3d.CoordColorFunc(func(c model3d.Coord3D) render3d.Color {
		simsched.Yield("color.texture", int(math.Float64bits(c.X)%97))
		return render3d.NewColorRGB(math.Abs(c.X), math.Abs(c.Y), math.Abs(c.Z))
	}).Cached()
	texSize := 2 + work.Intn(5)
	aa := 1 + texSize%2
	inside := func(x, y float64) bool {
		cx, cy := int(x/d), int(y/d)
		if cx >= k || cy >= k {
			return false
		}
		u, v := x/d-float64(cx), y/d-float64(cy)
		const m = 1e-6
		if u < m || v < m || u > 1-m || v > 1-m {
			return false
		}
		c := cy*k + cx
		switch {
		case u+v < 1-m:
			return 2*c < len(tris)
		case u+v > 1+m:
			return 2*c+1 < len(tris)
		}
		return false
	}
	var texPixels []int // indices into Image.Data that have an unambiguous value
	for y := 0; y < texSize; y++ {
		for x := 0; x < texSize; x++ {
			ok := true
			for iy := 0; iy < aa; iy++ {
				for ix := 0; ix < aa; ix++ {
					dx := 1 / float64(texSize*aa)
					fx := float64(x)/float64(texSize) + dx/2 + dx*float64(ix)
					fy := float64(y)/float64(texSize) + dx/2 + dx*float64(iy)
					ok = ok && inside(fx, fy)
				}
			}
			if ok {
				texPixels = append(texPixels, (texSize-(y+1))*texSize+x)
			}
		}
	}
	digest := func() string {
		o, m := model3d.BuildMaterialOBJ(tris, cf)
		vo := model3d.BuildVertexColorOBJ(tris, vf)
		tex := render3d.NewImage(texSize, texSize)
		texColor.ToTexture(tex, uv, aa, false)
		uo, _ := model3d.BuildUVMapMaterialOBJ(tris, uv)
		s := fmt.Sprint(o.Vertices, len(o.FaceGroups), vo.VertexColors, uo.UVs, len(uo.FaceGroups))
		for _, p := range texPixels {
			s += fmt.Sprint(tex.Data[p])
		}
		for _, g := range o.FaceGroups {
			s += fmt.Sprint(g.Material, g.Faces)
		}
		for _, mat := range m.Materials {
			s += fmt.Sprint(mat.Name, mat.Diffuse)
		}
		return s
	}
	if len(texPixels) > 0 {
		r.st.probe("objbuild.texture_pixels_compared")
	}
	var want, got string
	if f := r.ref(func() { want = digest() }); f != nil {
		return []Finding{*f}
	}
	rseed := int64(work.U64() >> 1)
	r.st.MapDep = "MeshUVMap is a Go map: which triangle ToTexture picks for a sample on a border, and hence which colours it asks for, follows its iteration order"
	if len(tris) > 3 {
		r.st.MapDep += "; QuantizedTriangleColor clusters Mesh.TriangleSlice() in the iteration order of the face set (a Go map)"
	}
	if f := r.simN(workers, sticky, nil, func() {
		got = digest()
		if len(tris) > 3 {
			rand.Seed(rseed) // the global generator is part of the simulation: k-means initialisation draws from it
			// clustering draws from the global RNG: race and termination oracle only
			model3d.BuildQuantizedMaterialOBJ(tris, 2, cf)
			toolbox3d.CoordColorFunc(func(c model3d.Coord3D) render3d.Color {
				return render3d.NewColorRGB(math.Abs(c.X), math.Abs(c.Y), math.Abs(c.Z))
			}).Cached().QuantizedTriangleColor(model3d.NewMeshTriangles(tris), 3)
		}
	}); f != nil {
		return []Finding{*f}
	}
	if want != got {
		fs = append(fs, Finding{"objbuild|value", r.st.Desc + ": OBJ built with several workers differs from the 1-worker build"})
	}
	return
}

// ---------------------------------------------------------------- renderers

func scene() render3d.Object {
	return render3d.JoinedObject{
		&render3d.ColliderObject{Collider: &model3d.Sphere{Center: model3d.XYZ(0, 0, 0), Radius: 1},
			Material: &render3d.LambertMaterial{DiffuseColor: render3d.NewColorRGB(0.8, 0.3, 0.2), AmbientColor: render3d.NewColor(0.1)}},
		&render3d.ColliderObject{Collider: &model3d.Sphere{Center: model3d.XYZ(1.2, 0.4, 0.3), Radius: 0.5},
			Material: &render3d.PhongMaterial{Alpha: 5, SpecularColor: render3d.NewColor(0.4), DiffuseColor: render3d.NewColorRGB(0.1, 0.5, 0.9)}},
	}
}

func runRender(r *runner, work *choice.Source) (fs []Finding) {
	w, h := 2+work.Intn(5), 2+work.Intn(5)
	workers := 1 + work.Intn(12)
	sticky := work.Intn(4)
	kind := work.Intn(3)
	samples := 1 + work.Intn(4)
	sharedRenderer := work.Chance(1, 2)
	// focus points and area lights are shared by every render worker too
	focus := work.Chance(1, 2)
	r.st.Workers = workers
	r.st.Desc = fmt.Sprintf("render kind=%d %dx%d samples=%d workers=%d sharedRenderer=%v focus=%v", kind, w, h, samples, workers, sharedRenderer, focus)
	cam := render3d.NewCameraAt(model3d.XYZ(0.3, -4, 0.5), model3d.XYZ(0, 0, 0), 0.9)
	// a camera given as a plain struct with its zero-valued fields left alone (field
	// of view 0: the image is degenerate, but sharing the renderer must still not
	// race); values are not judged then
	zeroFOV := work.Chance(1, 8)
	if zeroFOV {
		c := *cam
		c.FieldOfView = 0
		cam = &c
	}
	lights := []*render3d.PointLight{{Origin: model3d.XYZ(2, -3, 4), Color: render3d.NewColor(1)}}
	obj := scene()
	knobs := map[string]int{"render.workers": workers}
	switch kind {
	case 0:
		rc := &render3d.RayCaster{Camera: cam, Lights: lights}
		want, got := render3d.NewImage(w, h), render3d.NewImage(w, h)
		if f := r.refK(map[string]int{"render.workers": 1}, func() { rc.Render(want, obj) }); f != nil {
			return []Finding{*f}
		}
		if f := r.simN(workers, sticky, knobs, func() { rc.Render(got, obj) }); f != nil {
			return []Finding{*f}
		}
		if fmt.Sprint(want.Data) != fmt.Sprint(got.Data) {
			fs = append(fs, Finding{"render|raycast-value", r.st.Desc + ": ray-cast image differs from the 1-worker image"})
		}
	default:
		progress := 0
		mk := func() *render3d.RecursiveRayTracer {
			rt := &render3d.RecursiveRayTracer{Camera: cam, Lights: lights, MaxDepth: kind - 1, NumSamples: samples,
				LogFunc: func(frac, rate float64) { progress++ }}
			if focus {
				rt.MaxDepth = kind
				rt.FocusPoints = []render3d.FocusPoint{
					&render3d.SphereFocusPoint{Center: model3d.XYZ(2, -3, 4), Radius: 0.7},
					&render3d.PhongFocusPoint{Target: model3d.XYZ(1.2, 0.4, 0.3), Alpha: 4},
				}
				rt.FocusPointProbs = []float64{0.3, 0.3}
			}
			return rt
		}
		rt := mk()
		shared := mk()
		shared.LogFunc = nil
		imgs := []*render3d.Image{render3d.NewImage(w, h), render3d.NewImage(w, h)}
		if f := r.simN(workers, sticky, knobs, func() {
			if !sharedRenderer {
				rt.Render(imgs[0], obj)
				return
			}
			// two callers share one renderer and one scene, private images
			done := make(chan struct{}, 2)
			for i := 0; i < 2; i++ {
				go func(i int) {
					simsched.Yield("render.caller", i)
					// the very same renderer value (no LogFunc: its callback state
					// would be the callers' own shared state, not the library's)
					shared.Render(imgs[i], obj)
					done <- struct{}{}
				}(i)
			}
			simsched.Yield("render.callers.wait", 0)
			<-done
			simsched.Yield("render.callers.wait", 1)
			<-done
		}); f != nil {
			return []Finding{*f}
		}
		for _, im := range imgs[:1] {
			for i, c := range im.Data {
				if !zeroFOV && math.IsNaN(c.X+c.Y+c.Z) {
					fs = append(fs, Finding{"render|nan", fmt.Sprintf("%s: pixel %d is NaN", r.st.Desc, i)})
					return
				}
			}
		}
	}
	return
}

// ---------------------------------------------------------------- cold start
//
// Several callers use entry points of the library at the same time before anything
// else has run in the process (this case is the first one of every worker
// process): whatever the library initialises lazily on first use - lookup tables,
// package-level caches - is then initialised under contention.  Afterwards every
// call is repeated alone and must give the same result.
func runColdStart(r *runner, work *choice.Source) (fs []Finding) {
	shape3 := simsolid.Gen(work, 3)
	shape2 := simsolid.Gen(work, 2)
	salt := work.U64()
	// (few scheduling points inside Contains: dual contouring asks tens of thousands of times)
	s3 := &simsolid.Solid3{S: shape3, Salt: salt, YieldEvery: 211}
	s2 := &simsolid.Solid2{S: shape2, Salt: salt, YieldEvery: 53}
	// a second solid on the very same lattice (same bounds, same spacing) but with
	// different contents: calls that overlap must not see each other's samples
	shape3b := *shape3
	shape3b.Prims = append([]simsolid.Prim(nil), shape3.Prims...)
	{
		lo, hi := shape3.Bounds()
		p := simsolid.Prim{Neg: true, Ball: true, R: 0.25 * (hi[0] - lo[0])}
		for a := 0; a < 3; a++ {
			p.C[a] = lo[a] + (0.3+0.4*work.Float())*(hi[a]-lo[a])
		}
		shape3b.Prims = append(shape3b.Prims, p)
	}
	s3b := &simsolid.Solid3{S: &shape3b, Salt: salt + 1, YieldEvery: 211}
	ico := model3d.NewMeshIcosphere(model3d.XYZ(0, 0, 0), 1, 2)
	k := 2 + work.Intn(3)
	ops := make([]int, k)
	for i := range ops {
		ops[i] = work.Intn(9)
		if i > 0 && work.Chance(1, 2) {
			ops[i] = ops[0] // the same entry point from several callers
			if ops[0] == 0 || ops[0] == 1 {
				ops[i] = ops[0] + 7 // ... on the other solid of the same lattice
			}
		}
	}
	workers := 1 + work.Intn(8)
	sticky := work.Intn(4)
	r.st.Workers = workers
	r.st.Desc = fmt.Sprintf("coldstart callers=%v workers=%d", ops, workers)
	for _, op := range ops {
		if op == 1 || op == 3 || op == 8 {
			r.st.MapDep = "mcSearch/msSearch walk Mesh.VertexSlice(), whose order is the iteration order of the vertex index (a Go map)"
		}
	}
	exec := func(op int) string {
		switch op {
		case 0:
			return c12.Canon3(model3d.MarchingCubes(s3, shape3.Delta))
		case 1:
			return c12.Canon3(model3d.MarchingCubesSearch(s3, shape3.Delta, 2))
		case 2:
			return c12.Canon3(model3d.DualContour(s3, shape3.Delta, false, false))
		case 3:
			return c12.Canon2(model2d.MarchingSquaresSearch(s2, shape2.Delta/2, 2))
		case 4:
			img := (&model2d.Rasterizer{Scale: 12}).RasterizeSolid(s2)
			return wproto.Hash(img.Pix)
		case 7:
			return c12.Canon3(model3d.MarchingCubes(s3b, shape3.Delta))
		case 8:
			return c12.Canon3(model3d.MarchingCubesSearch(s3b, shape3.Delta, 2))
		case 5:
			sdf := model3d.MeshToSDF(ico)
			return fmt.Sprint(fb(sdf.SDF(model3d.XYZ(0.1, 0.2, 0.3))), fb(sdf.SDF(model3d.XYZ(2, 0, 0))), model3d.MeshToCollider(ico).SphereCollision(model3d.XYZ(0, 0, 0.9), 0.3))
		default:
			img := render3d.NewImage(3, 3)
			(&render3d.RayCaster{Camera: render3d.NewCameraAt(model3d.XYZ(0.3, -4, 0.5), model3d.XYZ(0, 0, 0), 0.9),
				Lights: []*render3d.PointLight{{Origin: model3d.XYZ(2, -3, 4), Color: render3d.NewColor(1)}}}).Render(img, scene())
			return fmt.Sprint(img.Data)
		}
	}
	got := make([]string, k)
	if f := r.simN(workers, sticky, map[string]int{"render.workers": workers}, func() {
		var wg sync.WaitGroup
		for i := 0; i < k; i++ {
			wg.Add(1)
			go func(i int) {
				defer wg.Done()
				simsched.Yield("cold.caller", i)
				got[i] = exec(ops[i])
			}(i)
		}
		simsched.Yield("cold.wait", 0)
		wg.Wait()
	}); f != nil {
		return []Finding{*f}
	}
	for i, op := range ops {
		var want string
		if f := r.refK(map[string]int{"render.workers": 1}, func() { want = exec(op) }); f != nil {
			return []Finding{*f}
		}
		if want != got[i] {
			fs = append(fs, Finding{fmt.Sprintf("coldstart|op%d", op), fmt.Sprintf("%s: caller %d (entry point %d) got a different result at the start of the process, among other callers, than the same call alone afterwards", r.st.Desc, i, op)})
			return
		}
	}
	return
}
