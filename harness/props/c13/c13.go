//go:build verif

// Package c13: concurrent read-only use and the library's internally parallel
// routines are race-free and match sequential use (DESIGN.md section 4, C13).
// Built with -race; the scheduler is invisible to the race detector, so each
// deterministic run both drives an interleaving and reports every pair of
// conflicting accesses the library's own synchronisation does not order.
package c13

import (
	"fmt"
	"runtime"
	"strings"
	"testing"

	"verif/harness/choice"
	_ "verif/harness/hook"
	"verif/harness/props/c12"
	"verif/harness/simsched"
)

type Case struct {
	Property string   `json:"property"`
	Engine   string   `json:"engine"`
	Kind     string   `json:"kind"`
	Work     []uint32 `json:"work"`
	Sched    []uint32 `json:"sched"`
	// Pol: the auxiliary tape of the schedule stream (scheduling policy, priorities)
	Pol []uint32 `json:"pol,omitempty"`
	Seed     uint64   `json:"seed,omitempty"`
	Index    int      `json:"index,omitempty"`
}

type Finding struct{ Sig, Msg string }

type Stats struct {
	ProcsFaults int // simulated runs in which GOMAXPROCS was changed under the running call (c12 kinds)
	Steps, Preempt, Tasks, MaxRunnable int
	TraceHashes                        []string
	Workers                            int
	Desc                               string
	AtomicYields                       int // ... of which before a sync/atomic, sync.Map or sync.Pool operation
	AutoYields                         int // decisions taken at scheduling points inserted by the autoyield instrumenter
	// MapDep names the library routine whose Go-map iteration legitimately
	// influences this case's execution order or bytes ("" = none): such a case is
	// compared only on its order-free parts by the determinism self-test.
	MapDep string
	Probes                             map[string]int
	LockWaits                          int
	Sites                              map[string]int
}

func (s *Stats) probe(k string) {
	if s.Probes == nil {
		s.Probes = map[string]int{}
	}
	s.Probes[k]++
}

type runner struct {
	t     *testing.T
	st    *Stats
	sched *choice.Source
}

func (r *runner) absorb(res simsched.Result) {
	r.st.Steps += res.Steps
	r.st.Preempt += res.Preemptions
	r.st.LockWaits += res.LockWaits
	if res.Tasks > r.st.Tasks {
		r.st.Tasks = res.Tasks
	}
	if res.MaxRunnable > r.st.MaxRunnable {
		r.st.MaxRunnable = res.MaxRunnable
	}
	r.st.TraceHashes = append(r.st.TraceHashes, res.TraceHash)
	if n := res.Sites["mesh.v2f.beforelock"]; n >= 2 {
		r.st.probe("v2f: >=2 tasks passed the nil check before the index existed")
	}
	if res.LockWaits > 0 {
		r.st.probe("reduce lock contended")
	}
	for site, n := range res.Sites {
		if strings.HasPrefix(site, "auto:") || strings.HasPrefix(site, "atomic:") {
			r.st.AutoYields += n
		}
		if strings.HasPrefix(site, "atomic:") {
			r.st.AtomicYields += n
		}
	}
}

func (r *runner) simN(workers, sticky int, knobs map[string]int, f func()) *Finding {
	runtime.GOMAXPROCS(workers)
	res := simsched.Run(r.t, simsched.Config{Src: r.sched, Sticky: sticky, Knobs: knobs, Policy: simsched.DrawPolicy(r.sched)}, f)
	r.absorb(res)
	return outcome(res, "simulated run")
}

func (r *runner) ref(f func()) *Finding { return r.refK(nil, f) }

func (r *runner) refK(knobs map[string]int, f func()) *Finding {
	runtime.GOMAXPROCS(1)
	res := simsched.Run(r.t, simsched.Config{Src: choice.Replay(nil), Knobs: knobs}, f)
	r.st.Steps += res.Steps
	return outcome(res, "reference run")
}

func outcome(res simsched.Result, what string) *Finding {
	switch {
	case res.Deadlock:
		return &Finding{"deadlock", fmt.Sprintf("%s: all goroutines blocked after %d steps (parked: %v)", what, res.Steps, res.Blocked)}
	case res.Livelock:
		return &Finding{"livelock", fmt.Sprintf("%s: no termination within %d scheduler steps", what, res.Steps)}
	case res.Panic != nil:
		return &Finding{"panic|" + cls(fmt.Sprint(res.Panic)), fmt.Sprintf("%s: panic: %v\n%s", what, res.Panic, res.PanicStack)}
	}
	return nil
}

func cls(s string) string {
	b := []byte(s)
	for i, c := range b {
		if c >= '0' && c <= '9' {
			b[i] = 'N'
		}
	}
	if len(b) > 60 {
		b = b[:60]
	}
	return string(b)
}

var Kinds = []string{"readers3", "kmeans", "readers2", "heightmap", "readers3", "objbuild", "render", "c12:mc",
	"readers3", "c12:dc", "readers2", "c12:ms", "readers3", "c12:raster", "render", "c12:mcsearch",
	"readers3", "kmeans", "readers2", "heightmap", "readers3", "objbuild", "render", "c12:mc",
	"readers3", "c12:dc", "readers2", "c12:ms", "readers3", "c12:raster", "render", "c12:mcsearch",
	"coldstart", "kmeans", "readers2", "heightmap", "readers3", "objbuild", "render", "c12:mcflat",
	"readers3", "c12:dc", "readers2", "c12:ms", "readers3", "c12:raster", "c12:dcbig", "c12:mcsearch",
	"composites", "composites", "composites"}

func RunCase(t *testing.T, c *Case, work, sched *choice.Source, st *Stats) (fs []Finding) {
	r := &runner{t: t, st: st, sched: sched}
	defer func() {
		c.Work, c.Sched, c.Pol = work.Tape(), sched.Tape(), sched.AuxTape()
		runtime.GOMAXPROCS(16)
	}()
	switch {
	case c.Kind == "readers3":
		return runReaders3(r, work)
	case c.Kind == "readers2":
		return runReaders2(r, work)
	case c.Kind == "kmeans":
		return runKMeans(r, work)
	case c.Kind == "heightmap":
		return runHeightMap(r, work)
	case c.Kind == "objbuild":
		return runOBJBuild(r, work)
	case c.Kind == "render":
		return runRender(r, work)
	case c.Kind == "coldstart":
		return runColdStart(r, work)
	case c.Kind == "composites":
		return runComposites(r, work)
	case strings.HasPrefix(c.Kind, "c12:"):
		cc := &c12.Case{Algo: c.Kind[4:]}
		cst := &c12.Stats{}
		for _, f := range c12.RunCase(t, cc, work, sched, cst) {
			fs = append(fs, Finding{"c12|" + f.Sig, f.Msg})
		}
		st.Steps, st.Preempt, st.Tasks, st.MaxRunnable = cst.Steps, cst.Preempt, cst.Tasks, cst.MaxRunnable
		st.TraceHashes, st.Workers, st.Desc, st.MapDep = cst.TraceHashes, cst.Workers, cst.Desc, cst.MapDep
		st.ProcsFaults = cst.ProcsFaults
		for k, v := range cst.Probes {
			for i := 0; i < v; i++ {
				st.probe("c12." + k)
			}
		}
		return fs
	}
	panic("unknown kind " + c.Kind)
}
