//go:build verif

package c13

import (
	"fmt"
	"sync"

	"github.com/unixpickle/model3d/model2d"
	"github.com/unixpickle/model3d/model3d"
	"verif/harness/choice"
	"verif/harness/simsched"
)

// compWorld: shared composite objects built from primitives - joined, subtracted,
// intersected and transformed solids, joined colliders, joined transforms, in 3-D
// and 2-D - queried by several readers at once.  Every query is a read-only
// method, including the ones that return a derived object (Optimize, Inverse):
// they may not touch the object they are called on.
type compWorld struct {
	js3   model3d.JoinedSolid
	sub3  *model3d.SubtractedSolid
	int3  model3d.IntersectedSolid
	xf3   model3d.Solid
	jc3   *model3d.JoinedCollider
	jt3   model3d.JoinedTransform
	js2   model2d.JoinedSolid
	int2  model2d.IntersectedSolid
	jc2   *model2d.JoinedCollider
	jt2   model2d.JoinedTransform
	curve model2d.JoinedCurve
	// mesh hierarchies: an outer shell with several separate cavities (some with an
	// island inside), 3-D and 2-D; cav3/cav2 are points inside the cavities
	hier3 []*model3d.MeshHierarchy
	hier2 []*model2d.MeshHierarchy
	cav3  []model3d.Coord3D
	cav2  []model2d.Coord
}

const numCompOps = 22

func genCompWorld(src *choice.Source) *compWorld {
	w := &compWorld{}
	pt := func() model3d.Coord3D {
		return model3d.XYZ(-2+4*src.Float(), -2+4*src.Float(), -2+4*src.Float())
	}
	prim := func() (model3d.Solid, model3d.Collider) {
		c := pt()
		switch src.Intn(6) {
		case 0:
			s := &model3d.Sphere{Center: c, Radius: 0.2 + src.Float()}
			return s, s
		case 1:
			s := model3d.NewRect(c, c.Add(model3d.XYZ(0.1+src.Float(), 0.1+src.Float(), 0.1+src.Float())))
			return s, s
		case 2:
			s := &model3d.Cylinder{P1: c, P2: c.Add(model3d.XYZ(0.3, 0.2+src.Float(), 0.1)), Radius: 0.1 + 0.5*src.Float()}
			return s, s
		case 3:
			s := &model3d.Capsule{P1: c, P2: c.Add(model3d.XYZ(0.5*src.Float(), 0.3, 0.4)), Radius: 0.1 + 0.4*src.Float()}
			return s, s
		case 4:
			s := &model3d.Cone{Tip: c, Base: c.Add(model3d.XYZ(0.1, 0.2, 0.5+src.Float())), Radius: 0.2 + 0.5*src.Float()}
			return s, s
		default:
			s := &model3d.Torus{Center: c, Axis: model3d.XYZ(0, 0, 1), InnerRadius: 0.1 + 0.1*src.Float(), OuterRadius: 0.4 + 0.5*src.Float()}
			return s, s
		}
	}
	var cols []model3d.Collider
	for i, n := 0, 2+src.Intn(9); i < n; i++ {
		s, c := prim()
		w.js3 = append(w.js3, s)
		cols = append(cols, c)
	}
	a, _ := prim()
	b, _ := prim()
	w.sub3 = &model3d.SubtractedSolid{Positive: w.js3, Negative: a}
	w.int3 = model3d.IntersectedSolid{w.js3, model3d.JoinedSolid{a, b}}
	w.jt3 = model3d.JoinedTransform{&model3d.Translate{Offset: pt()}, &model3d.VecScale{Scale: model3d.XYZ(0.5+src.Float(), 1, 2)}, model3d.Rotation(model3d.XYZ(0, 1, 0), src.Float())}
	w.xf3 = model3d.TransformSolid(w.jt3, w.js3)
	w.jc3 = model3d.NewJoinedCollider(cols)

	pt2 := func() model2d.Coord { return model2d.XY(-2+4*src.Float(), -2+4*src.Float()) }
	var cols2 []model2d.Collider
	for i, n := 0, 2+src.Intn(9); i < n; i++ {
		c := pt2()
		switch src.Intn(3) {
		case 0:
			s := &model2d.Circle{Center: c, Radius: 0.2 + src.Float()}
			w.js2 = append(w.js2, s)
			cols2 = append(cols2, s)
		case 1:
			s := model2d.NewRect(c, c.Add(model2d.XY(0.1+src.Float(), 0.1+src.Float())))
			w.js2 = append(w.js2, s)
			cols2 = append(cols2, s)
		default:
			s := &model2d.Capsule{P1: c, P2: c.Add(model2d.XY(0.5, 0.2+src.Float())), Radius: 0.1 + 0.3*src.Float()}
			w.js2 = append(w.js2, s)
			cols2 = append(cols2, s)
		}
	}
	w.int2 = model2d.IntersectedSolid{w.js2, &model2d.Circle{Center: pt2(), Radius: 2}}
	w.jc2 = model2d.NewJoinedCollider(cols2)
	w.jt2 = model2d.JoinedTransform{&model2d.Translate{Offset: pt2()}, &model2d.Scale{Scale: 0.5 + src.Float()}}
	for i, n := 0, 1+src.Intn(4); i < n; i++ {
		w.curve = append(w.curve, model2d.BezierCurve{pt2(), pt2(), pt2(), pt2()})
	}
	// hierarchies: a box with 2-4 box-shaped cavities in a row, every other one
	// holding an island
	ncav := 2 + src.Intn(3)
	m3 := model3d.NewMeshRect(model3d.XYZ(-3, -1, -1), model3d.XYZ(3, 1, 1))
	m2 := model2d.NewMeshRect(model2d.XY(-3, -1), model2d.XY(3, 1))
	for i := 0; i < ncav; i++ {
		cx := -2.4 + 4.8*float64(i)/float64(ncav-1)
		r := 0.2 + 0.15*src.Float()
		m3.AddMesh(model3d.NewMeshRect(model3d.XYZ(cx-r, -r, -r), model3d.XYZ(cx+r, r, r)))
		m2.AddMesh(model2d.NewMeshRect(model2d.XY(cx-r, -r), model2d.XY(cx+r, r)))
		w.cav3 = append(w.cav3, model3d.XYZ(cx+0.8*r, 0.7*r, -0.6*r))
		w.cav2 = append(w.cav2, model2d.XY(cx+0.8*r, 0.7*r))
		if i%2 == 1 {
			m3.AddMesh(model3d.NewMeshRect(model3d.XYZ(cx-r/3, -r/3, -r/3), model3d.XYZ(cx+r/3, r/3, r/3)))
			m2.AddMesh(model2d.NewMeshRect(model2d.XY(cx-r/3, -r/3), model2d.XY(cx+r/3, r/3)))
		}
	}
	w.hier3 = model3d.MeshToHierarchy(m3)
	w.hier2 = model2d.MeshToHierarchy(m2)
	return w
}

func (w *compWorld) exec(o op) string {
	p2, q2 := model2d.XY(o.P.X, o.P.Y), model2d.XY(o.Q.X, o.Q.Y)
	switch o.Code {
	case 0:
		return fmt.Sprint(w.js3.Contains(o.P))
	case 1:
		return c3(w.js3.Min()) + c3(w.js3.Max())
	case 2:
		s := w.js3.Optimize()
		return fmt.Sprint(s.Contains(o.P), s.Contains(o.Q)) + c3(s.Min()) + c3(s.Max())
	case 3:
		return fmt.Sprint(w.sub3.Contains(o.P)) + c3(w.sub3.Min())
	case 4:
		return fmt.Sprint(w.int3.Contains(o.P)) + c3(w.int3.Max())
	case 5:
		return fmt.Sprint(w.xf3.Contains(o.P)) + c3(w.xf3.Min())
	case 6:
		rc, ok := w.jc3.FirstRayCollision(&model3d.Ray{Origin: o.P, Direction: o.Q.Sub(o.P)})
		return fmt.Sprint(ok, fb(rc.Scale), c3(rc.Normal))
	case 7:
		n := w.jc3.RayCollisions(&model3d.Ray{Origin: o.P, Direction: o.Q.Sub(o.P)}, nil)
		return fmt.Sprint(n)
	case 8:
		return fmt.Sprint(w.jc3.SphereCollision(o.P, o.R)) + c3(w.jc3.Min())
	case 9:
		return c3(w.jt3.Apply(o.P))
	case 10:
		lo, hi := w.jt3.ApplyBounds(o.P.Min(o.Q), o.P.Max(o.Q))
		return c3(w.jt3.Inverse().Apply(o.P)) + c3(lo) + c3(hi)
	case 11:
		return fmt.Sprint(w.js2.Contains(p2)) + c2(w.js2.Min()) + c2(w.js2.Max())
	case 12:
		s := w.js2.Optimize()
		return fmt.Sprint(s.Contains(p2), s.Contains(q2)) + c2(s.Min()) + c2(s.Max())
	case 13:
		rc, ok := w.jc2.FirstRayCollision(&model2d.Ray{Origin: p2, Direction: q2.Sub(p2)})
		return fmt.Sprint(ok, fb(rc.Scale), c2(rc.Normal))
	case 14:
		return fmt.Sprint(w.jc2.CircleCollision(p2, o.R), w.jc2.RayCollisions(&model2d.Ray{Origin: p2, Direction: q2.Sub(p2)}, nil))
	case 15:
		return fmt.Sprint(w.int2.Contains(p2)) + c2(w.int2.Min())
	case 16:
		return c2(w.jt2.Apply(p2)) + c2(w.jt2.Inverse().Apply(q2))
	case 17:
		return c2(w.curve.Eval(o.R))
	case 18: // a point in one of the cavities (or its island), and an arbitrary one
		c := w.cav3[o.I%len(w.cav3)]
		if o.J%3 == 0 {
			c = model3d.XYZ(c.X, 0, 0) // towards the cavity's centre line (inside an island if there is one)
		}
		h := w.hier3[0]
		return fmt.Sprint(h.Contains(c), h.Contains(o.P.Scale(0.4))) + c3(h.Min())
	case 19:
		c := w.cav2[o.I%len(w.cav2)]
		if o.J%3 == 0 {
			c = model2d.XY(c.X, 0)
		}
		h := w.hier2[0]
		return fmt.Sprint(h.Contains(c), h.Contains(model2d.XY(0.4*o.P.X, 0.4*o.P.Y))) + c2(h.Max())
	case 20:
		return fmt.Sprint(w.hier3[0].FullMesh().NumTriangles(), len(w.hier3[0].Children))
	default:
		return fmt.Sprint(w.hier2[0].FullMesh().NumSegments(), len(w.hier2[0].Children))
	}
}

func runComposites(r *runner, work *choice.Source) (fs []Finding) {
	w := genCompWorld(work)
	k := 2 + work.Intn(6)
	plans := make([][]op, k)
	for i := range plans {
		for j, n := 0, 2+work.Intn(8); j < n; j++ {
			o := op{Code: work.Intn(numCompOps)}
			if work.Chance(1, 3) {
				o.Code = []int{2, 12, 10, 0, 11, 18, 19, 18, 19}[work.Intn(9)] // the derived-object queries and what they may disturb; hierarchies
			}
			o.P = model3d.XYZ(-2.5+5*work.Float(), -2.5+5*work.Float(), -2.5+5*work.Float())
			o.Q = model3d.XYZ(-2.5+5*work.Float(), -2.5+5*work.Float(), -2.5+5*work.Float())
			o.R = work.Float()
			o.I, o.J = work.Intn(64), work.Intn(64)
			plans[i] = append(plans[i], o)
		}
	}
	workers := 1 + work.Intn(8)
	r.st.Workers = workers
	r.st.Desc = fmt.Sprintf("composites: %d+%d joined solids, readers=%d", len(w.js3), len(w.js2), k)
	// the sequential answers are taken first: a read-only query cannot change them
	want := make([][]string, k)
	for i := range plans {
		for _, o := range plans[i] {
			want[i] = append(want[i], w.exec(o))
		}
	}
	answers := make([][]string, k)
	if f := r.simN(workers, work.Intn(4), nil, func() {
		var wg sync.WaitGroup
		for i := 0; i < k; i++ {
			wg.Add(1)
			go func(i int) {
				defer wg.Done()
				simsched.Yield("reader.start", i)
				for _, o := range plans[i] {
					answers[i] = append(answers[i], w.exec(o))
					simsched.Yield("reader.next", i)
				}
			}(i)
		}
		simsched.Yield("readers.wait", 0)
		wg.Wait()
	}); f != nil {
		return []Finding{*f}
	}
	for i := range plans {
		for j, o := range plans[i] {
			if j >= len(answers[i]) {
				return []Finding{{"composites|missing-answer", fmt.Sprintf("%s: reader %d did not finish", r.st.Desc, i)}}
			}
			if answers[i][j] != want[i][j] {
				return []Finding{{fmt.Sprintf("composites|op%d", o.Code), fmt.Sprintf("%s: reader %d query %d (op %d) answered %.120s concurrently but %.120s sequentially before", r.st.Desc, i, j, o.Code, answers[i][j], want[i][j])}}
			}
			if after := w.exec(o); after != want[i][j] {
				return []Finding{{fmt.Sprintf("composites|op%d-after", o.Code), fmt.Sprintf("%s: op %d answers %.120s after the concurrent readers, %.120s before them: a read-only query changed a shared object", r.st.Desc, o.Code, after, want[i][j])}}
			}
		}
	}
	return nil
}
