//go:build verif

package c13

import (
	"fmt"
	"math"
	"sort"
	"strings"
	"sync"

	"github.com/unixpickle/model3d/model2d"
	"github.com/unixpickle/model3d/model3d"
	"github.com/unixpickle/model3d/render3d"
	"github.com/unixpickle/model3d/toolbox3d"
	"verif/harness/choice"
	"verif/harness/meshgen"
	"verif/harness/simsched"
)

func fb(x float64) string { return fmt.Sprintf("%016x", math.Float64bits(x)) }

// +0 normalises the sign of zero: coordinates that are == are one vertex, and
// which of its bit patterns an answer carries is decided by Go map order.
func c3(c model3d.Coord3D) string { return fb(c.X+0) + fb(c.Y+0) + fb(c.Z+0) }
func c2(c model2d.Coord) string   { return fb(c.X+0) + fb(c.Y+0) }
func t3(t *model3d.Triangle) string {
	return c3(t[0]) + c3(t[1]) + c3(t[2])
}
func sorted(ss []string) string { sort.Strings(ss); return strings.Join(ss, ",") }

func trisDigest(ts []*model3d.Triangle) string {
	out := make([]string, len(ts))
	for i, t := range ts {
		out[i] = t3(t)
	}
	return fmt.Sprint(len(ts), ":", sorted(out))
}

func coordsDigest(cs []model3d.Coord3D) string {
	out := make([]string, len(cs))
	for i, c := range cs {
		out[i] = c3(c)
	}
	return fmt.Sprint(len(cs), ":", sorted(out))
}

// world3 is the set of shared objects the readers query.
type world3 struct {
	mesh     *model3d.Mesh
	tris     []*model3d.Triangle // stable order (construction order)
	verts    []model3d.Coord3D
	collider model3d.MultiCollider
	sdf      model3d.FaceSDF
	solid    model3d.Solid
	tree     *model3d.CoordTree
	color    toolbox3d.CoordColorFunc
	scalar   func(float64) float64
	lo, hi   model3d.Coord3D
	closed   bool
}

type op struct {
	Code int
	I, J int
	P, Q model3d.Coord3D
	R    float64
}

const numOps3 = 26

func genOp(src *choice.Source, w *world3) op {
	o := op{Code: src.Intn(numOps3)}
	if !w.closed && o.Code >= 15 && o.Code <= 22 {
		// collider/sdf/solid objects only exist for closed meshes
		o.Code = src.Intn(15)
	}
	if len(w.tris) > 0 {
		o.I = src.Intn(len(w.tris))
	}
	if len(w.verts) > 0 {
		o.J = src.Intn(len(w.verts))
	}
	d := w.hi.Sub(w.lo)
	rnd := func() model3d.Coord3D {
		return model3d.XYZ(w.lo.X+d.X*(1.4*src.Float()-0.2), w.lo.Y+d.Y*(1.4*src.Float()-0.2), w.lo.Z+d.Z*(1.4*src.Float()-0.2))
	}
	o.P, o.Q = rnd(), rnd()
	o.R = 0.05 + 0.5*src.Float()
	return o
}

// exec runs one read-only query and returns a canonical digest of its answer.
func (w *world3) exec(o op) string {
	m := w.mesh
	switch o.Code {
	case 0:
		if len(w.verts) == 0 {
			return "-"
		}
		return trisDigest(m.Find(w.verts[o.J]))
	case 1:
		if len(w.tris) == 0 {
			return "-"
		}
		return trisDigest(m.Neighbors(w.tris[o.I]))
	case 2:
		return coordsDigest(m.VertexSlice())
	case 3:
		var ts []*model3d.Triangle
		m.Iterate(func(t *model3d.Triangle) { ts = append(ts, t) })
		return trisDigest(ts)
	case 4:
		var cs []model3d.Coord3D
		m.IterateVertices(func(c model3d.Coord3D) { cs = append(cs, c) })
		return coordsDigest(cs)
	case 5:
		if len(w.verts) == 0 {
			return "-"
		}
		return coordsDigest(m.AllVertexNeighbors().Value(w.verts[o.J]))
	case 6:
		return fmt.Sprint(m.NumTriangles())
	case 7:
		return c3(m.Min()) + c3(m.Max())
	case 8:
		return trisDigest(m.MapCoords(func(c model3d.Coord3D) model3d.Coord3D { return c.Scale(2) }).TriangleSlice())
	case 9:
		return fmt.Sprint(m.NeedsRepair())
	case 10:
		return coordsDigest(m.SingularVertices())
	case 11:
		if len(w.tris) == 0 {
			return "-"
		}
		return fmt.Sprint(m.Contains(w.tris[o.I]), m.Contains(&model3d.Triangle{}))
	case 12:
		return trisDigest(m.TriangleSlice())
	case 13:
		return trisDigest(m.Copy().TriangleSlice()) + trisDigest(m.DeepCopy().TriangleSlice())
	case 14:
		if len(w.verts) < 2 {
			return "-"
		}
		return trisDigest(m.Find(w.verts[o.J], w.verts[(o.J+1)%len(w.verts)]))
	case 15:
		n := 0
		w.collider.RayCollisions(&model3d.Ray{Origin: o.P, Direction: o.Q.Sub(o.P)}, func(model3d.RayCollision) { n++ })
		return fmt.Sprint(n)
	case 16:
		rc, ok := w.collider.FirstRayCollision(&model3d.Ray{Origin: o.P, Direction: o.Q.Sub(o.P)})
		return fmt.Sprint(ok, fb(rc.Scale), c3(rc.Normal))
	case 17:
		return fmt.Sprint(w.collider.SphereCollision(o.P, o.R))
	case 18:
		return fb(w.sdf.SDF(o.P))
	case 19:
		p, d := w.sdf.PointSDF(o.P)
		return c3(p) + fb(d)
	case 20:
		n, d := w.sdf.NormalSDF(o.P)
		return c3(n) + fb(d)
	case 21:
		return fmt.Sprint(w.solid.Contains(o.P), w.solid.Contains(o.Q))
	case 22:
		t, p, d := w.sdf.FaceSDF(o.P)
		return t3(t) + c3(p) + fb(d)
	case 23:
		if w.tree == nil {
			return "-"
		}
		return c3(w.tree.NearestNeighbor(o.P)) + coordsDigest(w.tree.KNN(1+o.I%4, o.Q))
	case 24:
		c := w.color(w.vertOr(o))
		return c3(c)
	case 25:
		return fb(w.scalar(float64(o.I%7))) + fb(w.scalar(o.R))
	}
	return "?"
}

func (w *world3) vertOr(o op) model3d.Coord3D {
	if len(w.verts) == 0 || o.I%3 == 0 {
		return o.P
	}
	return w.verts[o.J]
}

func genWorld3(src *choice.Source, st *Stats) *world3 {
	w := &world3{}
	var tris []*model3d.Triangle
	kind := src.Intn(5)
	switch kind {
	case 0: // soup: shared/duplicated vertices, degenerate faces, signed zeros
		pool := meshgen.Pool(src, 3+src.Intn(10), meshgen.AllowPlain|1<<meshgen.FlSignedZero)
		tris = meshgen.Triangles(src, pool, src.Intn(30))
	case 1:
		tris = model3d.NewMeshRect(model3d.XYZ(-0.5, -0.25, -0.125), model3d.XYZ(0.5, 0.75, 0.375)).TriangleSlice()
		w.closed = true
	case 2:
		tris = model3d.NewMeshIcosphere(model3d.XYZ(0.1, 0.2, 0.3), 0.7, 1+src.Intn(2)).TriangleSlice()
		w.closed = true
	case 3:
		tris = model3d.NewMeshTorus(model3d.XYZ(0, 0, 0), model3d.Z(1), 0.2, 0.6, 5+src.Intn(4), 6+src.Intn(5)).TriangleSlice()
		w.closed = true
	case 4:
		tris = model3d.NewMeshCylinder(model3d.XYZ(0, 0, -0.5), model3d.XYZ(0.1, 0.2, 0.5), 0.3, 5+src.Intn(6)).TriangleSlice()
		w.closed = true
	}
	// TriangleSlice order comes from a Go map: fix an order independent of it
	sort.Slice(tris, func(i, j int) bool { return t3(tris[i]) < t3(tris[j]) })
	w.tris = tris
	w.mesh = model3d.NewMeshTriangles(tris)
	seen := map[model3d.Coord3D]bool{}
	for _, t := range tris {
		for _, v := range t {
			if !seen[v] {
				seen[v] = true
				w.verts = append(w.verts, v)
			}
		}
	}
	w.lo, w.hi = model3d.XYZ(-1, -1, -1), model3d.XYZ(1, 1, 1)
	if len(tris) > 0 {
		// derived objects are built from a private copy so that the shared
		// mesh can keep its vertex index absent until the readers arrive
		priv := model3d.NewMeshTriangles(tris)
		w.lo, w.hi = priv.Min(), priv.Max()
		if w.closed {
			w.collider = model3d.MeshToCollider(priv)
			w.sdf = model3d.MeshToSDF(priv)
			w.solid = model3d.NewColliderSolid(w.collider)
		}
		w.tree = model3d.NewCoordTree(w.verts)
	}
	calls := 0
	_ = calls
	w.color = toolbox3d.CoordColorFunc(func(c model3d.Coord3D) render3d.Color {
		return render3d.NewColorRGB(math.Abs(math.Sin(c.X)), math.Abs(math.Cos(c.Y)), 0.5)
	}).Cached()
	w.scalar = model2d.CacheScalarFunc(func(x float64) float64 { return math.Sqrt(x*x + 1) })
	if src.Chance(1, 3) && len(tris) > 0 {
		// index already present before the readers start
		w.mesh.VertexSlice()
		st.probe("readers.index_prebuilt")
	} else {
		st.probe("readers.index_absent")
	}
	st.Desc = fmt.Sprintf("readers3 meshkind=%d faces=%d verts=%d closed=%v", kind, len(tris), len(w.verts), w.closed)
	return w
}

// runReaders3: k tasks issue read-only queries on shared objects; every answer
// must equal the answer of the same query made sequentially afterwards.
func runReaders3(r *runner, work *choice.Source) (fs []Finding) {
	w := genWorld3(work, r.st)
	k := 2 + work.Intn(7)
	plans := make([][]op, k)
	for i := range plans {
		n := 2 + work.Intn(8)
		if work.Chance(1, 2) {
			// burst: everyone starts with an index-building query
			plans[i] = append(plans[i], op{Code: []int{0, 2, 5, 10, 14}[work.Intn(5)], J: work.Intn(1+len(w.verts)) % max(1, len(w.verts))})
		}
		for j := 0; j < n; j++ {
			plans[i] = append(plans[i], genOp(work, w))
		}
	}
	workers := 1 + work.Intn(8)
	sticky := work.Intn(4)
	r.st.Workers = workers
	r.st.Desc += fmt.Sprintf(" readers=%d ops=%d", k, len(plans[0]))
	answers := make([][]string, k)
	if f := r.simN(workers, sticky, nil, func() {
		var wg sync.WaitGroup
		for i := 0; i < k; i++ {
			wg.Add(1)
			go func(i int) {
				defer wg.Done()
				simsched.Yield("reader.start", i)
				for _, o := range plans[i] {
					answers[i] = append(answers[i], w.exec(o))
					simsched.Yield("reader.next", i)
				}
			}(i)
		}
		simsched.Yield("readers.wait", 0)
		wg.Wait()
	}); f != nil {
		return []Finding{*f}
	}
	// sequential oracle: the same queries, one after the other, on the same objects
	for i := range plans {
		for j, o := range plans[i] {
			if j >= len(answers[i]) {
				fs = append(fs, Finding{"readers|missing-answer", fmt.Sprintf("%s: reader %d did not finish", r.st.Desc, i)})
				break
			}
			if seq := w.exec(o); seq != answers[i][j] {
				fs = append(fs, Finding{fmt.Sprintf("readers|op%d", o.Code), fmt.Sprintf("%s: reader %d query %d (op %d) answered %.120s concurrently but %.120s sequentially", r.st.Desc, i, j, o.Code, answers[i][j], seq)})
				return
			}
		}
	}
	return
}

// ---------------------------------------------------------------- 2-D readers

type world2 struct {
	mesh     *model2d.Mesh
	segs     []*model2d.Segment
	verts    []model2d.Coord
	collider model2d.MultiCollider
	sdf      model2d.PointSDF
}

func segsDigest(ss []*model2d.Segment) string {
	out := make([]string, len(ss))
	for i, s := range ss {
		out[i] = c2(s[0]) + c2(s[1])
	}
	return fmt.Sprint(len(ss), ":", sorted(out))
}

func (w *world2) exec(o op) string {
	m := w.mesh
	switch o.Code % 12 {
	case 0:
		if len(w.verts) == 0 {
			return "-"
		}
		return segsDigest(m.Find(w.verts[o.J%len(w.verts)]))
	case 1:
		out := []string{}
		for _, v := range m.VertexSlice() {
			out = append(out, c2(v))
		}
		return sorted(out)
	case 2:
		var ss []*model2d.Segment
		m.Iterate(func(s *model2d.Segment) { ss = append(ss, s) })
		return segsDigest(ss)
	case 3:
		return fmt.Sprint(m.NumSegments(), c2(m.Min()), c2(m.Max()))
	case 4:
		return fmt.Sprint(m.Manifold())
	case 5:
		return segsDigest(m.MapCoords(func(c model2d.Coord) model2d.Coord { return c.Scale(3) }).SegmentSlice())
	case 6:
		if len(w.segs) == 0 {
			return "-"
		}
		return segsDigest(m.Neighbors(w.segs[o.I%len(w.segs)]))
	case 7:
		n := 0
		w.collider.RayCollisions(&model2d.Ray{Origin: model2d.XY(o.P.X, o.P.Y), Direction: model2d.XY(o.Q.X-o.P.X, o.Q.Y-o.P.Y)}, func(model2d.RayCollision) { n++ })
		return fmt.Sprint(n)
	case 8:
		return fmt.Sprint(w.collider.CircleCollision(model2d.XY(o.P.X, o.P.Y), o.R))
	case 9:
		p, d := w.sdf.PointSDF(model2d.XY(o.P.X, o.P.Y))
		return c2(p) + fb(d)
	case 10:
		return fb(w.sdf.SDF(model2d.XY(o.Q.X, o.Q.Y)))
	case 11:
		out := []string{}
		m.IterateVertices(func(c model2d.Coord) { out = append(out, c2(c)) })
		return sorted(out)
	}
	return "?"
}

func runReaders2(r *runner, work *choice.Source) (fs []Finding) {
	w := &world2{}
	stops := 5 + work.Intn(20)
	rad := 0.5 + work.Float()
	base := model2d.NewMeshPolar(func(theta float64) float64 { return rad * (1 + 0.3*math.Sin(3*theta)) }, stops)
	w.segs = base.SegmentSlice()
	sort.Slice(w.segs, func(i, j int) bool { return c2(w.segs[i][0])+c2(w.segs[i][1]) < c2(w.segs[j][0])+c2(w.segs[j][1]) })
	w.mesh = model2d.NewMeshSegments(w.segs)
	seen := map[model2d.Coord]bool{}
	for _, s := range w.segs {
		for _, v := range s {
			if !seen[v] {
				seen[v] = true
				w.verts = append(w.verts, v)
			}
		}
	}
	priv := model2d.NewMeshSegments(w.segs)
	w.collider = model2d.MeshToCollider(priv)
	w.sdf = model2d.MeshToSDF(priv)
	if work.Chance(1, 3) {
		w.mesh.VertexSlice()
	}
	// the shared mesh need not be a clean outline: hubs where 3..7 segments start at
	// one point, duplicates, and segments removed again after the index was built
	// (index slices with spare capacity); colliders and fields keep the outline
	hubs := 0
	if work.Chance(1, 2) {
		hubs = 1 + work.Intn(3)
		for h := 0; h < hubs; h++ {
			hub := w.verts[work.Intn(len(w.verts))]
			n := 1 + work.Intn(6)
			for i := 0; i < n; i++ {
				sgm := &model2d.Segment{hub, model2d.XY(3*work.Float()-1.5, 3*work.Float()-1.5)}
				if work.Chance(1, 4) {
					sgm[1] = w.verts[work.Intn(len(w.verts))]
				}
				w.mesh.Add(sgm)
				w.segs = append(w.segs, sgm)
			}
		}
		if work.Chance(1, 2) {
			w.mesh.VertexSlice()
			for i := 0; i < 1+work.Intn(3) && len(w.segs) > 3; i++ {
				j := work.Intn(len(w.segs))
				w.mesh.Remove(w.segs[j])
				w.segs = append(w.segs[:j:j], w.segs[j+1:]...)
			}
		}
		seen = map[model2d.Coord]bool{}
		w.verts = w.verts[:0]
		for _, sg := range w.segs {
			for _, v := range sg {
				if !seen[v] {
					seen[v] = true
					w.verts = append(w.verts, v)
				}
			}
		}
	}
	k := 2 + work.Intn(7)
	plans := make([][]op, k)
	for i := range plans {
		n := 2 + work.Intn(8)
		for j := 0; j < n; j++ {
			o := op{Code: work.Intn(12), I: work.Intn(1000), J: work.Intn(1000), R: 0.05 + work.Float()}
			if hubs > 0 && work.Chance(1, 2) {
				// queries about the most recently added (hub) segments
				o.Code = []int{6, 6, 0}[work.Intn(3)]
				o.I = len(w.segs) - 1 - work.Intn(min(len(w.segs), 8))
			}
			o.P = model3d.XYZ(3*work.Float()-1.5, 3*work.Float()-1.5, 0)
			o.Q = model3d.XYZ(3*work.Float()-1.5, 3*work.Float()-1.5, 0)
			plans[i] = append(plans[i], o)
		}
	}
	workers := 1 + work.Intn(8)
	r.st.Workers = workers
	r.st.Desc = fmt.Sprintf("readers2 segments=%d hubs=%d readers=%d", len(w.segs), hubs, k)
	answers := make([][]string, k)
	if f := r.simN(workers, work.Intn(4), nil, func() {
		var wg sync.WaitGroup
		for i := 0; i < k; i++ {
			wg.Add(1)
			go func(i int) {
				defer wg.Done()
				simsched.Yield("reader.start", i)
				for _, o := range plans[i] {
					answers[i] = append(answers[i], w.exec(o))
					simsched.Yield("reader.next", i)
				}
			}(i)
		}
		simsched.Yield("readers.wait", 0)
		wg.Wait()
	}); f != nil {
		return []Finding{*f}
	}
	for i := range plans {
		for j, o := range plans[i] {
			if j >= len(answers[i]) {
				fs = append(fs, Finding{"readers2|missing-answer", fmt.Sprintf("%s: reader %d did not finish", r.st.Desc, i)})
				break
			}
			if seq := w.exec(o); seq != answers[i][j] {
				fs = append(fs, Finding{fmt.Sprintf("readers2|op%d", o.Code%12), fmt.Sprintf("%s: reader %d query %d answered %.120s concurrently but %.120s sequentially", r.st.Desc, i, j, answers[i][j], seq)})
				return
			}
		}
	}
	return
}
