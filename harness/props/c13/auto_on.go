//go:build verif && autoyield

package c13

import _ "verif/harness/hookauto"

// AutoYield: this binary is built against the autoyield-instrumented copy of the
// library (a scheduling point before every sync/atomic and sync.Map operation).
const AutoYield = true
