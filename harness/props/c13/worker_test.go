//go:build verif

//go:debug randseednop=0

package c13

import (
	"encoding/json"
	"fmt"
	"testing"
	"time"

	"verif/harness/choice"
	"verif/harness/props/c12"
	"verif/harness/racelog"
	"verif/harness/simsched"
	"verif/harness/wproto"
)

func runOne(t *testing.T, c *Case, work, sched *choice.Source, out *wproto.Out, tail *racelog.Tail, id int) {
	out.Begin(id)
	out.SetOnStuck(func() {
		c.Work, c.Sched, c.Pol = work.Tape(), sched.Tape(), sched.AuxTape()
		sig, msg := out.StuckWhat()
		out.Finding(id, sig, "livelock", msg, c)
		out.End(id, []string{sig})
		out.Count("evaluations", 1)
		out.Finish("restart", id+1)
	})
	st := &Stats{}
	fs := RunCase(t, c, work, sched, st)
	var sigs []string
	seen := map[string]bool{}
	for _, f := range fs {
		if !seen[f.Sig] {
			seen[f.Sig] = true
			sigs = append(sigs, f.Sig)
			out.Finding(id, f.Sig, "mismatch", f.Msg, c)
		}
	}
	for _, rep := range tail.New() {
		out.Count("race_reports", 1)
		if !rep.Repo {
			out.Finding(id, "harness-race", "harness", "race report without a model3d frame:\n"+rep.Text, c)
			sigs = append(sigs, "harness-race")
			continue
		}
		if !seen[rep.Sig] {
			seen[rep.Sig] = true
			sigs = append(sigs, rep.Sig)
			out.Finding(id, rep.Sig, "race", fmt.Sprintf("%s: data race between %s and %s\n%s", st.Desc, rep.Tops[0], rep.Tops[1], rep.Text), c)
		}
	}
	out.Trace(id, st.MapDep, []any{st.TraceHashes, st.Steps, st.Preempt, st.Tasks}, []any{sigs, st.Workers, st.Desc})
	out.End(id, sigs)
	out.Count("evaluations", 1)
	out.Count("kind."+c.Kind, 1)
	out.Count("sim_steps", int64(st.Steps))
	out.Count("preemptions", int64(st.Preempt))
	out.Count("lock_waits", int64(st.LockWaits))
	if st.ProcsFaults > 0 {
		out.Count("fault.gomaxprocs_changed_mid_call", int64(st.ProcsFaults))
	}
	out.Count("auto_yield_decisions", int64(st.AutoYields))
	out.Count("atomic_site_decisions", int64(st.AtomicYields))
	if AutoYield {
		out.Counters["max_autoyield_build"] = 1
	}
	out.Count(fmt.Sprintf("workers.%02d", st.Workers), 1)
	if st.Tasks > int(out.Counters["max_tasks"]) {
		out.Counters["max_tasks"] = int64(st.Tasks)
	}
	for k, v := range st.Probes {
		out.Count("probe."+k, int64(v))
	}
	for _, h := range st.TraceHashes {
		out.SetAdd("distinct_interleavings", h)
	}
	if st.Preempt > 0 {
		b, _ := json.Marshal(c)
		out.SetAdd("distinct_nontrivial", wproto.Hash(b))
	}
	out.SampleKind(c.Kind, map[string]any{"case": id, "kind": c.Kind, "what": st.Desc, "sched_steps": st.Steps, "preemptions": st.Preempt, "tasks": st.Tasks}, 1, 12)
	out.Remember(c)
	simsched.FlushTotals(out.Count, func(name string, n int64) {
		if n > out.Counters[name] {
			out.Counters[name] = n
		}
	})
	out.Tick(32)
}

var kindEvery = map[string]int{"c12:dcbig": 8, "c12:dc": 2, "c12:mcflat": 2, "c12:mcsearch": 2}
var lightKinds = []string{"readers3", "composites", "render", "readers2", "objbuild"}

func TestWorker(t *testing.T) {
	job, err := wproto.LoadJob()
	if err != nil {
		t.Skip("not run by the driver: ", err)
	}
	out, err := wproto.OpenOut()
	if err != nil {
		t.Fatal(err)
	}
	out.StuckFlag = &simsched.Stuck
	out.StallProbe = simsched.StallProbe
	tail := racelog.Open()
	kinds := job.KindList(Kinds)
	mk := func(i int) (*Case, *choice.Source, *choice.Source) {
		kind := kinds[i%len(kinds)]
		if len(kinds) == len(Kinds) {
			// time balance: the heavy meshing kinds (seconds per case under the race
			// detector) take their slot only every few rounds of the list, a light
			// reader kind takes it otherwise; the list length is coprime to the shard
			// count, so every shard sees every kind
			if every := kindEvery[kind]; every > 1 && (i/len(kinds))%every != 0 {
				kind = lightKinds[(i/len(kinds)+i%len(kinds))%len(lightKinds)]
			}
		}
		c := &Case{Property: "C13", Engine: "simsched", Kind: kind}
		return c, choice.New(job.Seed, fmt.Sprint("c13-work-", i)), choice.New(job.Seed, fmt.Sprint("c13-sched-", i))
	}
	c12.MaxBigCells = 84
	out.Watch(300 * time.Second)
	switch job.Mode {
	case "replay":
		for i, raw := range job.Cases {
			if i < job.Start {
				continue
			}
			var c Case
			if err := json.Unmarshal(raw, &c); err != nil {
				t.Fatal(err)
			}
			if c.Work == nil && c.Sched == nil && c.Seed != 0 {
				runOne(t, &c, choice.New(c.Seed, fmt.Sprint("c13-work-", c.Index)), choice.New(c.Seed, fmt.Sprint("c13-sched-", c.Index)), out, tail, i)
				continue
			}
			runOne(t, &c, choice.Replay(c.Work), choice.ReplayAux(c.Sched, c.Pol), out, tail, i)
		}
		out.Finish("done", len(job.Cases))
	case "dump":
		var want int
		fmt.Sscan(job.Params["case"], &want)
		c, _, _ := mk(want)
		c.Seed, c.Index = job.Seed, want
		out.Emit(map[string]any{"t": "dump", "replay": c})
	case "explore":
		// the first thing every worker process does: concurrent callers on a cold
		// library (negative case ids; the workload is a function of seed, shard and
		// the index this process starts at)
		{
			c := &Case{Property: "C13", Engine: "simsched", Kind: "coldstart"}
			lbl := fmt.Sprint("-", job.Shard, "-", job.Start)
			runOne(t, c, choice.New(job.Seed, "c13-cold-work"+lbl), choice.New(job.Seed, "c13-cold-sched"+lbl), out, tail, -(1 + job.Shard))
		}
		deadline := time.Now().Add(time.Duration(job.BudgetS * float64(time.Second)))
		for i := job.Start; (job.MaxCases == 0 || i < job.MaxCases) && time.Now().Before(deadline); i++ {
			if i%job.NShards != job.Shard {
				continue
			}
			c, w, s := mk(i)
			runOne(t, c, w, s, out, tail, i)
			if out.ShouldRecycle() {
				out.Count("recycled_workers", 1)
				out.Finish("restart", i+1)
				return
			}
		}
		out.Finish("done", -1)
	}
}
