package c15

import (
	"fmt"
	"math"
	"strings"

	"github.com/unixpickle/model3d/model3d"
	"verif/harness/choice"
	"verif/harness/simio"
)

// Case is a replayable C15 run: the whole workload is a function of the tape.
type Case struct {
	Property string   `json:"property"`
	Engine   string   `json:"engine"`
	Kind     string   `json:"kind"`
	Tape     []uint32 `json:"tape"`
	// Sched: schedule choices of the kinds that run under the goroutine scheduler
	Sched []uint32 `json:"sched,omitempty"`
	// Pol: the auxiliary tape of the schedule stream (scheduling policy, priorities)
	Pol []uint32 `json:"pol,omitempty"`
}

type Finding struct {
	Sig string
	Msg string
}

type Stats struct {
	Files, Bytes, Deliveries int64
	Frags, Zero, DataEOF     int64
	Faces, Rows              int64
	Steps                    int64
	WriteFaults              int64
	Shapes                   map[string]struct{}
	Sample                   any
	NonTrivial               bool
	Digest                   string
	// MapDep names the library routine whose Go-map iteration legitimately
	// influences this case's execution order or bytes ("" = none): such a case is
	// compared only on its order-free parts by the determinism self-test.
	MapDep string
	Probes map[string]int64
}

func (s *Stats) probe(k string) {
	if s.Probes == nil {
		s.Probes = map[string]int64{}
	}
	s.Probes[k]++
}

func (s *Stats) shape(k string) {
	if s.Shapes == nil {
		s.Shapes = map[string]struct{}{}
	}
	s.Shapes[k] = struct{}{}
}

// deliveries: all of them are legal io.Reader behaviour, so the decoded result
// must not depend on which one is used.
func deliveries(src *choice.Source, n int) []simio.Delivery {
	seed := src.U64()
	return []simio.Delivery{
		{},
		{MaxFrag: 1},
		{MaxFrag: 1 + src.Intn(16), FragSeed: seed},
		{MaxFrag: 64 + src.Intn(512), FragSeed: seed ^ 0x5555, ZeroEvery: 2 + src.Intn(5)},
		{DataEOF: true},
		{MaxFrag: 1 + src.Intn(100), FragSeed: seed ^ 0xaaaa, DataEOF: true, ZeroEvery: 3 + src.Intn(9)},
	}
}

func (s *Stats) account(r *simio.Reader) {
	s.Deliveries++
	s.Frags += int64(r.Frags)
	s.Zero += int64(r.ZeroReads)
	s.DataEOF += int64(r.DataEOFs)
}

func f32(x float64) float64 { return float64(float32(x)) }

func round32(c model3d.Coord3D) model3d.Coord3D {
	return model3d.XYZ(f32(c.X), f32(c.Y), f32(c.Z))
}

func sameBits(a, b float64) bool { return math.Float64bits(a) == math.Float64bits(b) }

func sameCoord(a, b model3d.Coord3D) bool {
	return sameBits(a.X, b.X) && sameBits(a.Y, b.Y) && sameBits(a.Z, b.Z)
}

func fmtTri(t *model3d.Triangle) string {
	return fmt.Sprintf("[(%g,%g,%g) (%g,%g,%g) (%g,%g,%g)]", t[0].X, t[0].Y, t[0].Z, t[1].X, t[1].Y, t[1].Z, t[2].X, t[2].Y, t[2].Z)
}

// compareTris checks order, orientation and rounded coordinates (bit-exact).
func compareTris(kind string, want, got []*model3d.Triangle, round func(model3d.Coord3D) model3d.Coord3D) *Finding {
	return compareTrisEq(kind, want, got, round, sameCoord)
}

// numEq: formats that store shared vertices once (indexed by coordinate value)
// cannot keep the sign of a zero apart from its == twin; equality is numeric there.
func numEq(a, b model3d.Coord3D) bool { return a == b }

func compareTrisEq(kind string, want, got []*model3d.Triangle, round func(model3d.Coord3D) model3d.Coord3D,
	sameCoord func(a, b model3d.Coord3D) bool) *Finding {
	if len(want) != len(got) {
		return &Finding{kind + "|face-count", fmt.Sprintf("wrote %d faces, read back %d", len(want), len(got))}
	}
	for i := range want {
		for j := 0; j < 3; j++ {
			if !sameCoord(round(want[i][j]), got[i][j]) {
				return &Finding{kind + "|coord", fmt.Sprintf("face %d vertex %d: wrote %v (rounded %v), read %v; face written %s read %s",
					i, j, want[i][j], round(want[i][j]), got[i][j], fmtTri(want[i]), fmtTri(got[i]))}
			}
		}
	}
	return nil
}

func recoverTo(kind string, f *[]Finding) {
	if r := recover(); r != nil {
		msg := fmt.Sprint(r)
		if sp, ok := r.(simio.SpinPanic); ok {
			msg = "reader spin: " + sp.Reason
		}
		cls := msg
		if len(cls) > 60 {
			cls = cls[:60]
		}
		for _, d := range "0123456789" {
			cls = strings.ReplaceAll(cls, string(d), "N")
		}
		*f = append(*f, Finding{kind + "|panic|" + cls, "panic: " + msg})
	}
}
func bits(x float64) uint64 { return math.Float64bits(x) }

// guardInput snapshots the faces handed to an exporter; the returned function
// reports whether the exporter changed them (values or order of the slice).  The
// file must hold the faces the caller passed in, so the comparison of what is read
// back always uses the snapshot's values.
func guardInput(kind string, tris []*model3d.Triangle) func() *Finding {
	ptrs := append([]*model3d.Triangle(nil), tris...)
	vals := make([]model3d.Triangle, len(tris))
	for i, t := range tris {
		vals[i] = *t
	}
	return func() *Finding {
		for i, t := range tris {
			if t != ptrs[i] {
				return &Finding{kind + "|input-reordered", fmt.Sprintf("the exporter reordered the caller's slice of faces (position %d)", i)}
			}
			for j := 0; j < 3; j++ {
				if !sameCoord(t[j], vals[i][j]) {
					return &Finding{kind + "|input-modified", fmt.Sprintf("the exporter changed face %d of the caller's mesh: %s became %s", i, fmtTri(&vals[i]), fmtTri(t))}
				}
			}
		}
		return nil
	}
}

// positioned returns a seekable stream that holds some foreign bytes followed by
// data, positioned at the start of data (a mesh inside a container file).
func positioned(src *choice.Source, data []byte) *simio.SeekReader {
	n := 1 + src.Intn(40)
	buf := make([]byte, 0, n+len(data))
	for i := 0; i < n; i++ {
		buf = append(buf, byte(src.Intn(256)))
	}
	buf = append(buf, data...)
	return &simio.SeekReader{Data: buf, Pos: int64(n)}
}
