package c15

import (
	"archive/zip"
	"bytes"
	"encoding/xml"
	"fmt"
	"image"
	"io"
	"sort"
	"strconv"
	"strings"

	"github.com/unixpickle/model3d/fileformats"
	"github.com/unixpickle/model3d/model3d"
	"verif/harness/choice"
	"verif/harness/meshgen"
	"verif/harness/simio"
)

func triColor(salt uint64) func(t *model3d.Triangle) [3]float64 {
	return func(t *model3d.Triangle) [3]float64 {
		// a function of the numeric vertex values: faces whose vertices are == get
		// the same colour even when the sign of a zero differs
		h := choice.Derive(salt, fmt.Sprint(t[0].X+0, t[0].Y+0, t[0].Z+0, t[1].X+0, t[1].Y+0, t[1].Z+0, t[2].X+0, t[2].Y+0, t[2].Z+0))
		// few distinct colours so that materials are shared between faces
		return [3]float64{float64(h%4) / 4, float64((h>>8)%3) / 2, float64((h>>16)%2) * 0.625}
	}
}

func checkOBJ(kind string, o *fileformats.OBJFile, tris []*model3d.Triangle, needUV bool) *Finding {
	total := 0
	for _, g := range o.FaceGroups {
		total += len(g.Faces)
	}
	if total != len(tris) {
		return &Finding{kind + "|face-count", fmt.Sprintf("%d faces in groups for %d triangles", total, len(tris))}
	}
	// every input face must be referenced exactly once: match faces by coordinates as a multiset
	want := map[[3]model3d.Coord3D]int{}
	for _, t := range tris {
		want[[3]model3d.Coord3D{t[0], t[1], t[2]}]++
	}
	for gi, g := range o.FaceGroups {
		for fi, f := range g.Faces {
			var key [3]model3d.Coord3D
			for j := 0; j < 3; j++ {
				vi := f[j][0]
				if vi < 1 || vi > len(o.Vertices) {
					return &Finding{kind + "|vertex-index", fmt.Sprintf("group %d face %d vertex index %d outside [1,%d]", gi, fi, vi, len(o.Vertices))}
				}
				if needUV {
					if ti := f[j][1]; ti < 1 || ti > len(o.UVs) {
						return &Finding{kind + "|uv-index", fmt.Sprintf("group %d face %d uv index %d outside [1,%d]", gi, fi, ti, len(o.UVs))}
					}
				} else if f[j][1] != 0 && (f[j][1] < 1 || f[j][1] > len(o.UVs)) {
					return &Finding{kind + "|uv-index", fmt.Sprintf("uv index %d outside [1,%d]", f[j][1], len(o.UVs))}
				}
				if f[j][2] != 0 && (f[j][2] < 1 || f[j][2] > len(o.Normals)) {
					return &Finding{kind + "|normal-index", fmt.Sprintf("normal index %d outside [1,%d]", f[j][2], len(o.Normals))}
				}
				key[j] = model3d.NewCoord3DArray(o.Vertices[vi-1])
			}
			if want[key] == 0 {
				return &Finding{kind + "|face", fmt.Sprintf("group %d face %d = %v is not an input face (or is referenced too often)", gi, fi, key)}
			}
			want[key]--
		}
	}
	return nil
}

func runOBJ(src *choice.Source, st *Stats) (fs []Finding) {
	defer recoverTo("obj", &fs)
	tris := genMesh(src, meshgen.AllowFinite, st)
	salt := src.U64()
	cf := triColor(salt)
	st.Files++
	st.Sample = map[string]any{"kind": "obj", "faces": len(tris)}

	guard := guardInput("obj", tris)
	defer func() {
		if f := guard(); f != nil && len(fs) == 0 {
			fs = append(fs, *f)
		}
	}()
	o, m := model3d.BuildMaterialOBJ(tris, cf)
	if f := checkOBJ("obj_material", o, tris, false); f != nil {
		fs = append(fs, *f)
	}
	mats := map[string][3]float32{}
	for _, mat := range m.Materials {
		if _, dup := mats[mat.Name]; dup {
			fs = append(fs, Finding{"obj_material|dup-material", "material " + mat.Name + " declared twice"})
		}
		mats[mat.Name] = mat.Diffuse
	}
	for _, g := range o.FaceGroups {
		col, ok := mats[g.Material]
		if !ok {
			fs = append(fs, Finding{"obj_material|missing-material", "group references undeclared material " + g.Material})
			continue
		}
		for _, f := range g.Faces {
			t := &model3d.Triangle{model3d.NewCoord3DArray(o.Vertices[f[0][0]-1]), model3d.NewCoord3DArray(o.Vertices[f[1][0]-1]), model3d.NewCoord3DArray(o.Vertices[f[2][0]-1])}
			c := cf(t)
			if [3]float32{float32(c[0]), float32(c[1]), float32(c[2])} != col {
				fs = append(fs, Finding{"obj_material|color", fmt.Sprintf("face %v in group of colour %v but its colour is %v", *t, col, c)})
				break
			}
		}
	}

	vcf := func(c model3d.Coord3D) [3]float64 {
		h := choice.Derive(salt, fmt.Sprint(c.X+0, c.Y+0, c.Z+0))
		return [3]float64{float64(h%256) / 255, float64((h>>8)%256) / 255, float64((h>>16)%256) / 255}
	}
	vo := model3d.BuildVertexColorOBJ(tris, vcf)
	if f := checkOBJ("obj_vertexcolor", vo, tris, false); f != nil {
		fs = append(fs, *f)
	} else {
		if len(vo.VertexColors) != len(vo.Vertices) {
			fs = append(fs, Finding{"obj_vertexcolor|color-count", fmt.Sprintf("%d colours for %d vertices", len(vo.VertexColors), len(vo.Vertices))})
		} else {
			for i, v := range vo.Vertices {
				if vo.VertexColors[i] != vcf(model3d.NewCoord3DArray(v)) {
					fs = append(fs, Finding{"obj_vertexcolor|color", fmt.Sprintf("vertex %d %v has colour %v, want %v", i, v, vo.VertexColors[i], vcf(model3d.NewCoord3DArray(v)))})
					break
				}
			}
		}
	}

	{
		ts := 1 + src.Intn(3)
		qo, _, img := model3d.BuildQuantizedMaterialOBJ(tris, ts, cf)
		if f := checkOBJ("obj_quantized", qo, tris, true); f != nil {
			fs = append(fs, *f)
		}
		if img.Bounds().Dx() != ts || img.Bounds().Dy() != ts {
			fs = append(fs, Finding{"obj_quantized|texture-size", fmt.Sprint(img.Bounds())})
		}
	}

	{
		// the remaining zip exporters: archives must open and reference every face once
		wq := simio.NewWriter(simio.WriteFaults{})
		if err := model3d.WriteQuantizedMaterialOBJ(wq, tris, 2, cf); err != nil {
			fs = append(fs, Finding{"obj_quantized_zip|write-error", err.Error()})
		} else if f := checkOBJZip("obj_quantized_zip", wq.Buf, tris); f != nil {
			fs = append(fs, *f)
		}
		wt := simio.NewWriter(simio.WriteFaults{})
		if err := model3d.WriteTexturedMaterialOBJ(wt, o, m, image.NewRGBA(image.Rect(0, 0, 2, 2))); err != nil {
			fs = append(fs, Finding{"obj_textured_zip|write-error", err.Error()})
		} else if f := checkOBJZip("obj_textured_zip", wt.Buf, tris); f != nil {
			fs = append(fs, *f)
		}
		st.Bytes += int64(len(wq.Buf) + len(wt.Buf))
	}
	// the zip written by WriteMaterialOBJ, re-opened and re-parsed
	w := simio.NewWriter(simio.WriteFaults{})
	if err := model3d.WriteMaterialOBJ(w, tris, cf); err != nil {
		fs = append(fs, Finding{"obj_zip|write-error", err.Error()})
		return
	}
	st.Bytes += int64(len(w.Buf))
	zr, err := zip.NewReader(bytes.NewReader(w.Buf), int64(len(w.Buf)))
	if err != nil {
		fs = append(fs, Finding{"obj_zip|open", err.Error()})
		return
	}
	files := map[string][]byte{}
	for _, f := range zr.File {
		rc, err := f.Open()
		if err != nil {
			fs = append(fs, Finding{"obj_zip|open-member", err.Error()})
			return
		}
		b, err := io.ReadAll(rc)
		rc.Close()
		if err != nil {
			fs = append(fs, Finding{"obj_zip|read-member", f.Name + ": " + err.Error()})
			return
		}
		files[f.Name] = b
	}
	objText, ok := files["object.obj"]
	if !ok || files["material.mtl"] == nil && len(tris) > 0 {
		fs = append(fs, Finding{"obj_zip|members", fmt.Sprintf("members: %v", len(files))})
		return
	}
	var verts [][3]float64
	var faces []*model3d.Triangle
	declared := map[string]bool{}
	for _, l := range strings.Split(string(files["material.mtl"]), "\n") {
		p := strings.Fields(l)
		if len(p) == 2 && p[0] == "newmtl" {
			declared[p[1]] = true
		}
	}
	for _, l := range strings.Split(string(objText), "\n") {
		p := strings.Fields(l)
		if len(p) == 0 {
			continue
		}
		switch p[0] {
		case "v":
			var v [3]float64
			for i := 0; i < 3; i++ {
				// the writer prints the shortest decimal that identifies the float32 image
				v[i], err = strconv.ParseFloat(p[1+i], 32)
				if err != nil {
					fs = append(fs, Finding{"obj_zip|parse", l})
					return
				}
			}
			verts = append(verts, v)
		case "usemtl":
			if !declared[p[1]] {
				fs = append(fs, Finding{"obj_zip|missing-material", "usemtl " + p[1] + " not declared in material.mtl"})
			}
		case "f":
			t := &model3d.Triangle{}
			for i := 0; i < 3; i++ {
				idx, err := strconv.Atoi(strings.Split(p[1+i], "/")[0])
				if err != nil || idx < 1 || idx > len(verts) {
					fs = append(fs, Finding{"obj_zip|vertex-index", fmt.Sprintf("face line %q with %d vertices declared", l, len(verts))})
					return
				}
				t[i] = model3d.NewCoord3DArray(verts[idx-1])
			}
			faces = append(faces, t)
		}
	}
	if len(faces) != len(tris) {
		fs = append(fs, Finding{"obj_zip|face-count", fmt.Sprintf("%d f-lines for %d triangles", len(faces), len(tris))})
		return
	}
	canon := func(ts []*model3d.Triangle, round bool) []string {
		var out []string
		for _, t := range ts {
			s := ""
			for _, v := range t {
				if round {
					v = round32(v)
				}
				// vertices are shared by ==, so the sign of a zero is not kept apart
				v = model3d.XYZ(v.X+0, v.Y+0, v.Z+0)
				// the text form cannot distinguish the sign of zero reliably: "-0" parses to -0; keep bits
				s += fmt.Sprintf("%016x%016x%016x|", bits(v.X), bits(v.Y), bits(v.Z))
			}
			out = append(out, s)
		}
		sort.Strings(out)
		return out
	}
	if strings.Join(canon(faces, false), ";") != strings.Join(canon(tris, true), ";") {
		fs = append(fs, Finding{"obj_zip|faces", "faces parsed from object.obj differ from the input rounded to float32"})
	}
	return
}

type tmfModel struct {
	Resources struct {
		Objects []struct {
			Mesh struct {
				Vertices struct {
					V []struct {
						X string `xml:"x,attr"`
						Y string `xml:"y,attr"`
						Z string `xml:"z,attr"`
					} `xml:"vertex"`
				} `xml:"vertices"`
				Triangles struct {
					T []struct {
						V1 string `xml:"v1,attr"`
						V2 string `xml:"v2,attr"`
						V3 string `xml:"v3,attr"`
					} `xml:"triangle"`
				} `xml:"triangles"`
			} `xml:"mesh"`
		} `xml:"object"`
	} `xml:"resources"`
}

func run3MF(src *choice.Source, st *Stats) (fs []Finding) {
	defer recoverTo("3mf", &fs)
	st.MapDep = "Write3MF serialises through a Mesh (Go map order) and deflate, so the file length varies between runs"
	tris := genMesh(src, meshgen.AllowPlain|1<<meshgen.FlNineDigits|1<<meshgen.FlSignedZero, st)
	w := simio.NewWriter(simio.WriteFaults{})
	guard := guardInput("3mf", tris)
	if err := model3d.Write3MF(w, fileformats.ThreeMFUnitMillimeter, tris); err != nil {
		return []Finding{{"3mf|write-error", err.Error()}}
	}
	if f := guard(); f != nil {
		return []Finding{*f}
	}
	st.Files++
	st.Bytes += int64(len(w.Buf))
	st.Sample = map[string]any{"kind": "3mf", "faces": len(tris), "bytes": len(w.Buf)}
	return check3MF(w.Buf, tris)
}

// check3MF: the archive opens, has the three parts, and its model lists every
// input face (pointer) exactly once with in-range vertex indices.
func check3MF(data []byte, tris []*model3d.Triangle) (fs []Finding) {
	zr, err := zip.NewReader(bytes.NewReader(data), int64(len(data)))
	if err != nil {
		return []Finding{{"3mf|open", err.Error()}}
	}
	var model []byte
	names := map[string]bool{}
	for _, f := range zr.File {
		names[f.Name] = true
		rc, err := f.Open()
		if err != nil {
			return []Finding{{"3mf|open-member", err.Error()}}
		}
		b, err := io.ReadAll(rc)
		rc.Close()
		if err != nil {
			return []Finding{{"3mf|read-member", f.Name + ": " + err.Error()}}
		}
		if f.Name == "3D/3dmodel.model" {
			model = b
		}
	}
	if model == nil || !names["_rels/.rels"] || !names["[Content_Types].xml"] {
		return []Finding{{"3mf|members", fmt.Sprint(names)}}
	}
	var m tmfModel
	if err := xml.Unmarshal(model, &m); err != nil {
		return []Finding{{"3mf|xml", err.Error()}}
	}
	if len(m.Resources.Objects) != 1 {
		return []Finding{{"3mf|objects", fmt.Sprint(len(m.Resources.Objects))}}
	}
	mesh := m.Resources.Objects[0].Mesh
	verts := make([]model3d.Coord3D, len(mesh.Vertices.V))
	for i, v := range mesh.Vertices.V {
		x, e1 := strconv.ParseFloat(v.X, 64)
		y, e2 := strconv.ParseFloat(v.Y, 64)
		z, e3 := strconv.ParseFloat(v.Z, 64)
		if e1 != nil || e2 != nil || e3 != nil {
			return []Finding{{"3mf|vertex-parse", fmt.Sprint(v)}}
		}
		verts[i] = model3d.XYZ(x, y, z)
	}
	// Write3MF goes through a Mesh: a set of face pointers. Every input face
	// (pointer) must appear exactly once; value-equal distinct faces each appear.
	want := map[[3]model3d.Coord3D]int{}
	seen := map[*model3d.Triangle]bool{}
	n := 0
	for _, t := range tris {
		if !seen[t] {
			seen[t] = true
			want[canonRot(*t)]++
			n++
		}
	}
	if len(mesh.Triangles.T) != n {
		return []Finding{{"3mf|face-count", fmt.Sprintf("%d triangles in file for %d input faces", len(mesh.Triangles.T), n)}}
	}
	for i, t := range mesh.Triangles.T {
		var tri model3d.Triangle
		for j, s := range []string{t.V1, t.V2, t.V3} {
			idx, err := strconv.Atoi(s)
			if err != nil || idx < 0 || idx >= len(verts) {
				return []Finding{{"3mf|vertex-index", fmt.Sprintf("triangle %d index %q outside [0,%d)", i, s, len(verts))}}
			}
			tri[j] = verts[idx]
		}
		k := canonRot(tri)
		if want[k] == 0 {
			return []Finding{{"3mf|face", fmt.Sprintf("triangle %d = %v is not an input face (or appears too often)", i, tri)}}
		}
		want[k]--
	}
	return
}

// canonRot rotates a face so that orientation is kept but the start vertex is canonical.
func canonRot(t model3d.Triangle) [3]model3d.Coord3D {
	best := [3]model3d.Coord3D{t[0], t[1], t[2]}
	for r := 1; r < 3; r++ {
		c := [3]model3d.Coord3D{t[r], t[(r+1)%3], t[(r+2)%3]}
		if less3(c, best) {
			best = c
		}
	}
	// +0 and -0 are equal as map keys, which is what a decimal text format preserves at best
	return best
}

func less3(a, b [3]model3d.Coord3D) bool {
	for i := 0; i < 3; i++ {
		for _, p := range [][2]float64{{a[i].X, b[i].X}, {a[i].Y, b[i].Y}, {a[i].Z, b[i].Z}} {
			if p[0] != p[1] {
				return p[0] < p[1]
			}
		}
	}
	return false
}
