package c15

import (
	"fmt"

	"github.com/unixpickle/model3d/fileformats"
	"github.com/unixpickle/model3d/model2d"
	"github.com/unixpickle/model3d/model3d"
	"verif/harness/choice"
	"verif/harness/meshgen"
	"verif/harness/simio"
)

// runWriteFaults: the simulated disk fails (EIO or ENOSPC) once k bytes were
// accepted, for a writer-specific set of k.  A writer may fail, but it must
// not report success for a file it did not write completely: either it
// returns an error, or the bytes on disk are the complete fault-free file.
func runWriteFaults(src *choice.Source, st *Stats) (fs []Finding) {
	defer recoverTo("write_fault", &fs)
	tris := genMesh(src, meshgen.AllowFinite, st)
	if len(tris) == 0 {
		tris = genMesh(src, meshgen.AllowPlain, st)
	}
	salt := src.U64()
	colorFunc := func(c model3d.Coord3D) [3]uint8 {
		h := choice.Derive(salt, fmt.Sprint(c.X, c.Y, c.Z))
		return [3]uint8{uint8(h), uint8(h >> 8), uint8(h >> 16)}
	}
	cf := triColor(salt)
	type writer struct {
		name string
		run  func(w *simio.Writer) error
	}
	// a slice, not a model2d.Mesh: iterating a mesh would put the rows in Go map
	// order, which the simulator does not own
	var segs []*model2d.Segment
	for _, t := range tris {
		segs = append(segs, &model2d.Segment{model2d.XY(t[0].X, t[0].Y), model2d.XY(t[1].X, t[1].Y)})
	}
	writers := []writer{
		{"WriteSTL", func(w *simio.Writer) error { return model3d.WriteSTL(w, tris) }},
		{"WritePLY", func(w *simio.Writer) error { return model3d.WritePLY(w, tris, colorFunc) }},
		{"WriteMaterialOBJ", func(w *simio.Writer) error { return model3d.WriteMaterialOBJ(w, tris, cf) }},
		{"WriteVertexColorOBJ", func(w *simio.Writer) error {
			return model3d.WriteVertexColorOBJ(w, tris, func(c model3d.Coord3D) [3]float64 { return [3]float64{0.5, 0.25, 1} })
		}},
		{"Write3MF", func(w *simio.Writer) error { return model3d.Write3MF(w, fileformats.ThreeMFUnitMillimeter, tris) }},
		{"SegmentCSVWriter", func(w *simio.Writer) error {
			cw := fileformats.NewSegmentCSVWriter(w)
			var first error
			for _, s := range segs {
				if err := cw.Write([4]float64{s[0].X, s[0].Y, s[1].X, s[1].Y}); err != nil && first == nil {
					first = err
				}
			}
			return first
		}},
		{"STLWriter", func(w *simio.Writer) error {
			sw, err := fileformats.NewSTLWriter(w, uint32(len(tris)))
			if err != nil {
				return err
			}
			for range tris {
				if err := sw.WriteTriangle([3]float32{0, 0, 1}, [3][3]float32{{0, 0, 0}, {1, 0, 0}, {0, 1, 0}}); err != nil {
					return err
				}
			}
			return nil
		}},
	}
	wr := writers[src.Intn(len(writers))]
	if wr.name == "Write3MF" {
		st.MapDep = "Write3MF serialises through a Mesh (Go map order) and deflate, so the file length varies between runs"
	}
	clean := simio.NewWriter(simio.WriteFaults{})
	if err := wr.run(clean); err != nil {
		return []Finding{{"write_fault|" + wr.name + "|clean-error", err.Error()}}
	}
	n := len(clean.Buf)
	st.Files++
	st.Bytes += int64(n)
	st.NonTrivial = n > 0
	st.shape("writer=" + wr.name)
	st.Sample = map[string]any{"kind": "write_fault", "writer": wr.name, "bytes": n}
	// fault offsets: the ends, the tail (where final flushes land), and seeded ones
	offs := []int{0, 1, n - 1, n - 2, n - 22, n - 100}
	for i := 0; i < 6; i++ {
		offs = append(offs, src.Intn(n+1))
	}
	for _, k := range offs {
		if k < 0 || k >= n {
			continue
		}
		w := simio.NewWriter(simio.WriteFaults{HasErr: true, ErrAt: k, NoSpace: src.Chance(1, 2)})
		err := wr.run(w)
		st.WriteFaults += int64(w.ErrsFired)
		if err == nil && w.ErrsFired > 0 {
			fs = append(fs, Finding{"write_fault|" + wr.name + "|swallowed", fmt.Sprintf("%s reported success although the disk failed after %d bytes of a ~%d byte file (%d write errors were returned to it)", wr.name, k, n, w.ErrsFired)})
			return
		}
	}
	return
}
