//go:build verif

package c15

import (
	"bytes"
	"fmt"
	"os"
	"path/filepath"
	"strconv"
	"strings"

	"github.com/unixpickle/model3d/fileformats"
	"github.com/unixpickle/model3d/model3d"
	"verif/harness/choice"
	"verif/harness/meshgen"
)

// runSavePaths: the path-based exporters (Mesh.Save*) against a disk that has a
// history.  A session of saves goes to one or two paths of a scratch directory;
// a path may already hold something - foreign bytes, or an earlier and possibly
// much longer export - when the next save reaches it.  After every save the file
// is read back and must be exactly what that exporter writes for that mesh: it
// parses, references every face exactly once with in-range indices, and carries
// nothing of what the path held before.
//
// The disk here is the real file system of a scratch directory (the exporters
// open their files themselves: there is no seam to put a simulated one behind);
// what is simulated is its history.
func runSavePaths(src *choice.Source, st *Stats) (fs []Finding) {
	defer recoverTo("save_paths", &fs)
	st.MapDep = "Mesh.Save* serialise Mesh.TriangleSlice() (Go map order), and deflate output length follows it"
	dir, err := os.MkdirTemp("", "verif-c15-save-")
	if err != nil {
		panic(err)
	}
	defer os.RemoveAll(dir)
	paths := []string{filepath.Join(dir, "a.out"), filepath.Join(dir, "b.out")}
	steps := 2 + src.Intn(3)
	salt := src.U64()
	var trace []string
	for step := 0; step < steps; step++ {
		path := paths[0]
		if src.Chance(1, 4) {
			path = paths[1]
		}
		if src.Chance(1, 5) {
			// somebody else's file sits at the path
			junk := make([]byte, 1+src.Intn(6000))
			for i := range junk {
				junk[i] = byte(choice.Derive(salt, strconv.Itoa(i+step)))
			}
			if err := os.WriteFile(path, junk, 0o644); err != nil {
				panic(err)
			}
			trace = append(trace, fmt.Sprintf("foreign %dB", len(junk)))
			st.probe("fault.FOREIGN_FILE_AT_PATH")
		}
		// sizes swing: a long export first makes the later short one the interesting one
		var tris []*model3d.Triangle
		switch src.Intn(4) {
		case 0:
			tris = bigMesh(src, 150, 400)
		case 1:
			tris = bigMesh(src, 0, 3)
		default:
			tris = genMesh(src, meshgen.AllowPlain|1<<meshgen.FlNineDigits, st)
		}
		m := model3d.NewMeshTriangles(tris)
		faces := m.TriangleSlice()
		which := src.Intn(5)
		var old int64 = -1
		if fi, err := os.Stat(path); err == nil {
			old = fi.Size()
		}
		var name string
		var serr error
		switch which {
		case 0:
			name = "SaveGroupedSTL"
			serr = m.SaveGroupedSTL(path)
		case 1:
			name = "SaveMaterialOBJ"
			serr = m.SaveMaterialOBJ(path, triColor(salt))
		case 2:
			name = "Save3MF"
			serr = m.Save3MF(path, fileformats.ThreeMFUnitMillimeter)
		case 3:
			name = "SaveVertexColorOBJ"
			serr = m.SaveVertexColorOBJ(path, func(c model3d.Coord3D) [3]float64 { return [3]float64{0.25, 0.5, 1} })
		default:
			name = "SaveQuantizedMaterialOBJ"
			serr = m.SaveQuantizedMaterialOBJ(path, 16<<uint(src.Intn(3)), triColor(salt))
		}
		kind := "save_paths|" + name
		trace = append(trace, fmt.Sprintf("%s(%d faces) over %d bytes", name, len(faces), old))
		if serr != nil {
			return []Finding{{kind + "|error", fmt.Sprintf("%v [%s]", serr, strings.Join(trace, "; "))}}
		}
		data, err := os.ReadFile(path)
		if err != nil {
			return []Finding{{kind + "|read-back", err.Error()}}
		}
		st.Files++
		st.Bytes += int64(len(data))
		if old > int64(len(data)) {
			st.probe("fault.LONGER_FILE_AT_PATH")
		}
		var f *Finding
		switch which {
		case 0:
			if want := 84 + 50*len(faces); len(data) != want {
				f = &Finding{kind + "|length", fmt.Sprintf("file has %d bytes, a binary STL of %d faces has %d", len(data), len(faces), want)}
				break
			}
			got, err := model3d.ReadSTL(bytes.NewReader(data))
			if err != nil {
				f = &Finding{kind + "|read-error", err.Error()}
			} else if faceMultiset(faces) != faceMultiset(got) {
				f = &Finding{kind + "|faces", fmt.Sprintf("the file does not hold the %d faces of its mesh", len(faces))}
			}
		case 1, 4:
			f = checkOBJZip(kind, data, faces)
		case 2:
			if ff := check3MF(data, faces); len(ff) > 0 {
				f = &Finding{"save_paths|Save3MF|" + strings.TrimPrefix(ff[0].Sig, "3mf|"), ff[0].Msg}
			}
		case 3:
			nv, nf := 0, 0
			for _, l := range strings.Split(string(data), "\n") {
				p := strings.Fields(l)
				if len(p) == 0 {
					continue
				}
				switch p[0] {
				case "v":
					nv++
					if len(p) != 7 {
						f = &Finding{kind + "|vertex-line", fmt.Sprintf("%q", l)}
					}
				case "f":
					nf++
					for _, c := range p[1:] {
						idx, err := strconv.Atoi(strings.Split(c, "/")[0])
						if err != nil || idx < 1 || idx > nv {
							f = &Finding{kind + "|vertex-index", fmt.Sprintf("face line %q with %d vertices declared", l, nv)}
						}
					}
					if len(p) != 4 {
						f = &Finding{kind + "|face-line", fmt.Sprintf("%q", l)}
					}
				default:
					if !strings.HasPrefix(p[0], "#") && p[0] != "mtllib" && p[0] != "usemtl" && p[0] != "o" && p[0] != "g" && p[0] != "s" {
						f = &Finding{kind + "|stray-line", fmt.Sprintf("%q", l)}
					}
				}
			}
			if f == nil && nf != len(faces) {
				f = &Finding{kind + "|face-count", fmt.Sprintf("%d f-lines for %d faces", nf, len(faces))}
			}
		}
		if f != nil {
			f.Msg += " [" + strings.Join(trace, "; ") + "]"
			return []Finding{*f}
		}
	}
	st.Sample = map[string]any{"kind": "save_paths", "session": trace}
	return nil
}
