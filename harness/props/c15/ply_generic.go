package c15

import (
	"fmt"
	"math"
	"reflect"
	"strings"

	"github.com/unixpickle/model3d/fileformats"
	"verif/harness/choice"
	"verif/harness/simio"
)

var plyTypes = []fileformats.PLYPropertyType{
	fileformats.PLYPropertyTypeChar, fileformats.PLYPropertyTypeUchar, fileformats.PLYPropertyTypeShort,
	fileformats.PLYPropertyTypeUshort, fileformats.PLYPropertyTypeInt, fileformats.PLYPropertyTypeUint,
	fileformats.PLYPropertyTypeFloat, fileformats.PLYPropertyTypeDouble,
	fileformats.PLYPropertyTypeInt8, fileformats.PLYPropertyTypeUint8, fileformats.PLYPropertyTypeInt16,
	fileformats.PLYPropertyTypeUint16, fileformats.PLYPropertyTypeInt32, fileformats.PLYPropertyTypeUint32,
	fileformats.PLYPropertyTypeFloat32, fileformats.PLYPropertyTypeFloat64,
}

// indices of integer types usable as list length
var plyIntTypes = []int{0, 1, 2, 3, 4, 5, 8, 9, 10, 11, 12, 13}

func extremeOr(src *choice.Source, bits uint, signed bool) int64 {
	max := int64(1)<<bits - 1
	min := int64(0)
	if signed {
		max = int64(1)<<(bits-1) - 1
		min = -max - 1
	}
	switch src.Intn(6) {
	case 0:
		return 0
	case 1:
		return max
	case 2:
		return min
	case 3:
		return max - 1
	default:
		return min + int64(src.U64()%uint64(max-min+1))
	}
}

func genFloat(src *choice.Source, allowNaN bool) float64 {
	switch src.Intn(12) {
	case 0:
		return 0
	case 1:
		return math.Copysign(0, -1)
	case 2:
		return math.Inf(1)
	case 3:
		return math.Inf(-1)
	case 4:
		return math.SmallestNonzeroFloat64
	case 5:
		return math.MaxFloat64
	case 6:
		return float64(math.SmallestNonzeroFloat32)
	case 7:
		return float64(math.MaxFloat32)
	case 8:
		return (src.Float() - 0.5) * 1e-20
	default:
		return (src.Float() - 0.5) * math.Pow(10, float64(src.Intn(20)-6))
	}
}

func genValue(src *choice.Source, t fileformats.PLYPropertyType) fileformats.PLYValue {
	switch t {
	case fileformats.PLYPropertyTypeChar, fileformats.PLYPropertyTypeInt8:
		return fileformats.PLYValueInt8{Value: int8(extremeOr(src, 8, true))}
	case fileformats.PLYPropertyTypeUchar, fileformats.PLYPropertyTypeUint8:
		return fileformats.PLYValueUint8{Value: uint8(extremeOr(src, 8, false))}
	case fileformats.PLYPropertyTypeShort, fileformats.PLYPropertyTypeInt16:
		return fileformats.PLYValueInt16{Value: int16(extremeOr(src, 16, true))}
	case fileformats.PLYPropertyTypeUshort, fileformats.PLYPropertyTypeUint16:
		return fileformats.PLYValueUint16{Value: uint16(extremeOr(src, 16, false))}
	case fileformats.PLYPropertyTypeInt, fileformats.PLYPropertyTypeInt32:
		return fileformats.PLYValueInt32{Value: int32(extremeOr(src, 32, true))}
	case fileformats.PLYPropertyTypeUint, fileformats.PLYPropertyTypeUint32:
		return fileformats.PLYValueUint32{Value: uint32(extremeOr(src, 32, false))}
	case fileformats.PLYPropertyTypeFloat, fileformats.PLYPropertyTypeFloat32:
		return fileformats.PLYValueFloat32{Value: float32(genFloat(src, false))}
	default:
		return fileformats.PLYValueFloat64{Value: genFloat(src, false)}
	}
}

func lenValue(t fileformats.PLYPropertyType, n int) fileformats.PLYValue {
	switch t {
	case fileformats.PLYPropertyTypeChar, fileformats.PLYPropertyTypeInt8:
		return fileformats.PLYValueInt8{Value: int8(n)}
	case fileformats.PLYPropertyTypeUchar, fileformats.PLYPropertyTypeUint8:
		return fileformats.PLYValueUint8{Value: uint8(n)}
	case fileformats.PLYPropertyTypeShort, fileformats.PLYPropertyTypeInt16:
		return fileformats.PLYValueInt16{Value: int16(n)}
	case fileformats.PLYPropertyTypeUshort, fileformats.PLYPropertyTypeUint16:
		return fileformats.PLYValueUint16{Value: uint16(n)}
	case fileformats.PLYPropertyTypeInt, fileformats.PLYPropertyTypeInt32:
		return fileformats.PLYValueInt32{Value: int32(n)}
	default:
		return fileformats.PLYValueUint32{Value: uint32(n)}
	}
}

func maxLen(t fileformats.PLYPropertyType) int {
	switch t {
	case fileformats.PLYPropertyTypeChar, fileformats.PLYPropertyTypeInt8:
		return 127
	case fileformats.PLYPropertyTypeUchar, fileformats.PLYPropertyTypeUint8:
		return 255
	}
	return 2500
}

func valuesEqual(a, b fileformats.PLYValue) bool {
	switch x := a.(type) {
	case fileformats.PLYValueFloat32:
		y, ok := b.(fileformats.PLYValueFloat32)
		return ok && math.Float32bits(x.Value) == math.Float32bits(y.Value)
	case fileformats.PLYValueFloat64:
		y, ok := b.(fileformats.PLYValueFloat64)
		return ok && math.Float64bits(x.Value) == math.Float64bits(y.Value)
	case fileformats.PLYValueList:
		y, ok := b.(fileformats.PLYValueList)
		if !ok || !valuesEqual(x.Length, y.Length) || len(x.Values) != len(y.Values) {
			return false
		}
		for i := range x.Values {
			if !valuesEqual(x.Values[i], y.Values[i]) {
				return false
			}
		}
		return true
	default:
		return reflect.DeepEqual(a, b)
	}
}

// runPLYGeneric: any header expressible in the format (every element has at
// least one property; counts include 0 anywhere, also first and last), every
// scalar type, list properties with every integer length type including lengths
// at the type's limit, all three encodings.
func runPLYGeneric(src *choice.Source, st *Stats) (fs []Finding) {
	defer recoverTo("ply_generic", &fs)
	format := fileformats.PLYFormat(src.Intn(3))
	ne := 1 + src.Intn(4)
	h := &fileformats.PLYHeader{Format: format}
	shape := fmt.Sprintf("fmt=%d", format)
	for e := 0; e < ne; e++ {
		el := &fileformats.PLYElement{Name: fmt.Sprintf("el%d", e)}
		switch src.Intn(5) {
		case 0:
			el.Count = 0
		case 1:
			el.Count = 1
		default:
			el.Count = int64(1 + src.Intn(12))
		}
		np := 1 + src.Intn(5)
		for p := 0; p < np; p++ {
			pr := &fileformats.PLYProperty{Name: fmt.Sprintf("p%d", p), ElemType: plyTypes[src.Intn(len(plyTypes))]}
			if src.Chance(1, 3) {
				pr.LenType = plyTypes[plyIntTypes[src.Intn(len(plyIntTypes))]]
			}
			el.Properties = append(el.Properties, pr)
		}
		h.Elements = append(h.Elements, el)
		shape += fmt.Sprintf(" c%d", min(int(el.Count), 2))
	}
	if src.Chance(1, 16) {
		// (drawn after the header shape) a header line longer than any line buffer:
		// an element or property name of thousands of characters
		n := []int{4080, 4096, 4200, 70000}[src.Intn(4)] + src.Intn(40)
		name := strings.Repeat("n", n)
		el := h.Elements[src.Intn(len(h.Elements))]
		if src.Chance(1, 2) {
			el.Name = name
		} else {
			el.Properties[src.Intn(len(el.Properties))].Name = name
		}
		shape += " longname"
	}
	st.shape(shape)
	var rows [][]fileformats.PLYValue
	var rowEl []*fileformats.PLYElement
	for _, el := range h.Elements {
		for i := int64(0); i < el.Count; i++ {
			row := make([]fileformats.PLYValue, len(el.Properties))
			for p, pr := range el.Properties {
				if pr.LenType == fileformats.PLYPropertyTypeNone {
					row[p] = genValue(src, pr.ElemType)
				} else {
					n := 0
					switch src.Intn(8) {
					case 0:
						n = 0
					case 1:
						// at the length type's limit (127 / 255), or well past any
						// internal chunk size for the wider types
						n = maxLen(pr.LenType)
						if n > 255 {
							n = 1000 + src.Intn(n-1000)
						}
					default:
						n = src.Intn(6)
					}
					vs := make([]fileformats.PLYValue, n)
					for j := range vs {
						vs[j] = genValue(src, pr.ElemType)
					}
					row[p] = fileformats.PLYValueList{Length: lenValue(pr.LenType, n), Values: vs}
				}
			}
			rows = append(rows, row)
			rowEl = append(rowEl, el)
		}
	}
	w := simio.NewWriter(simio.WriteFaults{})
	pw, err := fileformats.NewPLYWriter(w, h)
	if err != nil {
		return []Finding{{"ply_generic|write-error", err.Error()}}
	}
	for i, row := range rows {
		if err := pw.Write(row); err != nil {
			return []Finding{{"ply_generic|write-error", fmt.Sprintf("row %d: %v", i, err)}}
		}
	}
	st.Files++
	st.Bytes += int64(len(w.Buf))
	st.Rows += int64(len(rows))
	st.NonTrivial = len(rows) > 0
	st.Sample = map[string]any{"kind": "ply_generic", "header": h.Encode(), "rows": len(rows), "bytes": len(w.Buf)}
	for _, d := range deliveries(src, len(w.Buf)) {
		r := simio.NewReader(w.Buf, d)
		pr, err := fileformats.NewPLYReader(r)
		if err != nil {
			fs = append(fs, Finding{"ply_generic|header-read-error", fmt.Sprintf("delivery %+v: %v; header %q", d, err, h.Encode())})
			continue
		}
		if got := pr.Header(); got.Encode() != h.Encode() {
			fs = append(fs, Finding{"ply_generic|header", fmt.Sprintf("header changed: wrote %q read %q", h.Encode(), got.Encode())})
			continue
		}
		i := 0
		var kept [][]fileformats.PLYValue // a caller may keep every row until the end of the stream
		for {
			vals, el, err := pr.Read()
			if err != nil {
				if err.Error() != "EOF" {
					fs = append(fs, Finding{"ply_generic|read-error", fmt.Sprintf("delivery %+v: row %d of %d: %v; header %q", d, i, len(rows), err, h.Encode())})
					i = -1
				}
				break
			}
			if i >= len(rows) {
				fs = append(fs, Finding{"ply_generic|extra-row", fmt.Sprintf("more rows read than the %d written; header %q", len(rows), h.Encode())})
				i = -1
				break
			}
			if el.Name != rowEl[i].Name {
				fs = append(fs, Finding{"ply_generic|row-element", fmt.Sprintf("row %d belongs to %s, read as %s; header %q", i, rowEl[i].Name, el.Name, h.Encode())})
				i = -1
				break
			}
			if len(vals) != len(rows[i]) {
				fs = append(fs, Finding{"ply_generic|row-arity", fmt.Sprintf("row %d: %d values, wrote %d", i, len(vals), len(rows[i]))})
				i = -1
				break
			}
			bad := false
			for j := range vals {
				if !valuesEqual(rows[i][j], vals[j]) {
					fs = append(fs, Finding{"ply_generic|value", fmt.Sprintf("delivery %+v: row %d (%s) property %s: wrote %#v read %#v (format %d)", d, i, el.Name, el.Properties[j].Name, rows[i][j], vals[j], format)})
					bad = true
					break
				}
			}
			if bad {
				i = -1
				break
			}
			kept = append(kept, vals)
			i++
		}
		if i >= 0 {
			// rows returned earlier must still hold what was written once the
			// stream has been read to its end (no storage shared between rows)
		retained:
			for k, vals := range kept {
				for j := range vals {
					if !valuesEqual(rows[k][j], vals[j]) {
						fs = append(fs, Finding{"ply_generic|retained-row", fmt.Sprintf("delivery %+v: row %d (%s) property %d read back correctly, but after reading the %d later rows the value kept by the caller is %#v instead of %#v (format %d)", d, k, rowEl[k].Name, j, len(kept)-1-k, vals[j], rows[k][j], format)})
						i = -1
						break retained
					}
				}
			}
		}
		st.account(r)
		if i >= 0 && i != len(rows) {
			fs = append(fs, Finding{"ply_generic|row-count", fmt.Sprintf("delivery %+v: read %d of %d rows (file has %d bytes); header %q", d, i, len(rows), len(w.Buf), h.Encode())})
		}
	}
	return
}
