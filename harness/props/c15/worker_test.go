//go:debug randseednop=0

package c15

import (
	"math/rand"
	"encoding/json"
	"fmt"

	"testing"
	"time"

	"verif/harness/choice"
	"verif/harness/simsched"
	"verif/harness/wproto"
)

var kinds = []struct {
	Name string
	Run  func(src *choice.Source, st *Stats) []Finding
}{
	{"stl_mesh", runSTLMesh},
	{"stl_stream", runSTLStream},
	{"stl_ascii", runSTLASCII},
	{"ply_mesh", runPLYMesh},
	{"ply_generic", runPLYGeneric},
	{"off_text", runOFF},
	{"csv", runCSV},
	{"obj", runOBJ},
	{"3mf", run3MF},
	{"write_fault", runWriteFaults},
	{"encode_session", runEncodeSession},
	{"ply_meshstream", runPLYMeshStream},
	{"save_paths", runSavePaths},
	{"concurrent_export", nil}, // runs under the goroutine scheduler: see runCase
}

func runCase(t *testing.T, c *Case, src, sched *choice.Source, out *wproto.Out, id int) {
	// the global math/rand source is part of the simulation: k-means initialisation of
	// the quantized exporters draws from it
	rand.Seed(20260929)
	out.Begin(id)
	st := &Stats{}
	var fs []Finding
	for _, k := range kinds {
		if k.Name == c.Kind && k.Run != nil {
			fs = k.Run(src, st)
		}
	}
	if c.Kind == "concurrent_export" {
		fs = runConcurrentExport(t, src, sched, st)
		c.Sched, c.Pol = sched.Tape(), sched.AuxTape()
	}
	c.Tape = src.Tape()
	var sigs []string
	seen := map[string]bool{}
	for _, f := range fs {
		if !seen[f.Sig] {
			seen[f.Sig] = true
			sigs = append(sigs, f.Sig)
			out.Finding(id, f.Sig, "mismatch", f.Msg, c)
		}
	}
	out.Trace(id, st.MapDep, []any{c.Tape, c.Sched, st.Steps, st.Bytes, st.Deliveries, st.Frags, st.Zero, st.DataEOF, st.WriteFaults}, []any{sigs, c.Kind, st.Files, st.Faces, st.Rows})
	out.End(id, sigs)
	out.Count("evaluations", 1)
	out.Count("kind."+c.Kind, 1)
	out.Count("files", st.Files)
	out.Count("sim_bytes", st.Bytes)
	out.Count("deliveries", st.Deliveries)
	for k, v := range st.Probes {
		out.Count(k, v)
	}
	out.Count("fault.FRAG", st.Frags)
	out.Count("fault.ZERO", st.Zero)
	out.Count("fault.DATA+EOF", st.DataEOF)
	out.Count("fault.W-ERR", st.WriteFaults)
	out.Count("faces", st.Faces)
	out.Count("rows", st.Rows)
	out.Count("sim_steps", st.Steps)
	for s := range st.Shapes {
		out.SetAdd("shapes", c.Kind+" "+s)
	}
	if st.NonTrivial {
		b, _ := json.Marshal(c.Tape)
		out.SetAdd("distinct_nontrivial", wproto.Hash(append([]byte(c.Kind), b...)))
	}
	if st.Sample != nil && id%257 < len(kinds)*2 {
		out.Sample(st.Sample, 12)
	}
	out.Remember(c)
	simsched.FlushTotals(out.Count, func(name string, n int64) {
		if n > out.Counters[name] {
			out.Counters[name] = n
		}
	})
	out.Tick(512)
}

func TestWorker(t *testing.T) {
	job, err := wproto.LoadJob()
	if err != nil {
		t.Skip("not run by the driver: ", err)
	}
	out, err := wproto.OpenOut()
	if err != nil {
		t.Fatal(err)
	}
	var names []string
	for _, k := range kinds {
		names = append(names, k.Name)
	}
	names = job.KindList(names)
	switch job.Mode {
	case "replay":
		for i, raw := range job.Cases {
			if i < job.Start {
				continue
			}
			var c Case
			if err := json.Unmarshal(raw, &c); err != nil {
				t.Fatal(err)
			}
			runCase(t, &c, choice.Replay(c.Tape), choice.ReplayAux(c.Sched, c.Pol), out, i)
		}
		out.Finish("done", len(job.Cases))
	case "dump":
		var want int
		fmt.Sscan(job.Params["case"], &want)
		c := &Case{Property: "C15", Engine: "simio", Kind: names[want%len(names)]}
		src := choice.New(job.Seed, fmt.Sprint("c15-", want))
		func() {
			defer func() { recover() }()
			for _, k := range kinds {
				if k.Name == c.Kind && k.Run != nil {
					k.Run(src, &Stats{})
				}
			}
		}()
		c.Tape = src.Tape()
		out.Emit(map[string]any{"t": "dump", "replay": c})
	case "explore":
		deadline := time.Now().Add(time.Duration(job.BudgetS * float64(time.Second)))
		for i := job.Start; (job.MaxCases == 0 || i < job.MaxCases) && time.Now().Before(deadline); i++ {
			if i%job.NShards != job.Shard {
				continue
			}
			c := &Case{Property: "C15", Engine: "simio", Kind: names[i%len(names)]}
			runCase(t, c, choice.New(job.Seed, fmt.Sprint("c15-", i)), choice.New(job.Seed, fmt.Sprint("c15-sched-", i)), out, i)
		}
		out.Finish("done", -1)
	}
}
