package c15

import (
	"archive/zip"
	"bytes"
	"fmt"
	"io"
	"runtime"
	"strconv"
	"strings"
	"testing"

	"github.com/unixpickle/model3d/fileformats"
	"github.com/unixpickle/model3d/model2d"
	"github.com/unixpickle/model3d/model3d"
	"verif/harness/choice"
	_ "verif/harness/hook"
	"verif/harness/meshgen"
	"verif/harness/simio"
	"verif/harness/simsched"
)

// ---------------------------------------------------------------- export sessions
//
// A caller exports several meshes one after the other through the byte-returning
// API and keeps every result; only afterwards the files are read back.  Each file
// must still hold what was returned when it was made, and must decode to its own
// mesh (an exporter must not keep hold of memory it has handed out).

type export struct {
	name   string
	tris   []*model3d.Triangle
	data   []byte // as kept by the caller
	copyOf []byte // snapshot taken the moment the exporter returned
	check  func(data []byte) *Finding
}

func bigMesh(src *choice.Source, lo, hi int) []*model3d.Triangle {
	np := 6 + src.Intn(20)
	pool := meshgen.Pool(src, np, meshgen.AllowPlain|1<<meshgen.FlNineDigits)
	return meshgen.Triangles(src, pool, lo+src.Intn(hi-lo+1))
}

func makeExport(src *choice.Source, st *Stats, which int, tris []*model3d.Triangle) *export {
	salt := src.U64()
	colorFunc := func(c model3d.Coord3D) [3]uint8 {
		h := choice.Derive(salt, fmt.Sprint(c.X+0, c.Y+0, c.Z+0))
		return [3]uint8{uint8(h), uint8(h >> 8), uint8(h >> 16)}
	}
	e := &export{tris: tris}
	guard := guardInput("session", tris)
	defer func() {
		if f := guard(); f != nil {
			e.check = func([]byte) *Finding { return f }
		}
	}()
	switch which % 4 {
	case 0:
		e.name = "EncodeSTL"
		e.data = model3d.EncodeSTL(tris)
		e.check = func(data []byte) *Finding {
			got, err := model3d.ReadSTL(bytes.NewReader(data))
			if err != nil {
				return &Finding{"session|EncodeSTL|read-error", err.Error()}
			}
			return compareTris("session|EncodeSTL", tris, got, round32)
		}
	case 1:
		e.name = "EncodePLY"
		e.data = model3d.EncodePLY(tris, colorFunc)
		e.check = func(data []byte) *Finding {
			got, _, err := model3d.ReadColorPLY(bytes.NewReader(data))
			if err != nil {
				return &Finding{"session|EncodePLY|read-error", err.Error()}
			}
			return compareTrisEq("session|EncodePLY", tris, got, round32, numEq)
		}
	case 2:
		e.name = "Mesh.EncodeSTL"
		m := model3d.NewMeshTriangles(tris)
		e.data = m.EncodeSTL()
		e.check = func(data []byte) *Finding {
			got, err := model3d.ReadSTL(bytes.NewReader(data))
			if err != nil {
				return &Finding{"session|Mesh.EncodeSTL|read-error", err.Error()}
			}
			// a Mesh is a set: compare as multisets of rounded faces
			if a, b := faceMultiset(m.TriangleSlice()), faceMultiset(got); a != b {
				return &Finding{"session|Mesh.EncodeSTL|faces", fmt.Sprintf("the file no longer holds the %d faces of its mesh", m.NumTriangles())}
			}
			return nil
		}
	default:
		e.name = "EncodeMaterialOBJ"
		e.data = model3d.EncodeMaterialOBJ(tris, triColor(salt))
		e.check = func(data []byte) *Finding {
			if f := checkOBJZip("session|EncodeMaterialOBJ", data, tris); f != nil {
				return f
			}
			return nil
		}
	}
	e.copyOf = append([]byte(nil), e.data...)
	st.Files++
	st.Bytes += int64(len(e.data))
	return e
}

// checkOBJZip: the archive opens, object.obj declares its vertices before use and
// has one in-range f-line per input face.
func checkOBJZip(kind string, data []byte, tris []*model3d.Triangle) *Finding {
	zr, err := zip.NewReader(bytes.NewReader(data), int64(len(data)))
	if err != nil {
		return &Finding{kind + "|open", err.Error()}
	}
	for _, f := range zr.File {
		if f.Name != "object.obj" {
			continue
		}
		rc, err := f.Open()
		if err != nil {
			return &Finding{kind + "|open-member", err.Error()}
		}
		b, err := io.ReadAll(rc)
		rc.Close()
		if err != nil {
			return &Finding{kind + "|read-member", err.Error()}
		}
		nv, nf := 0, 0
		for _, l := range strings.Split(string(b), "\n") {
			p := strings.Fields(l)
			if len(p) == 0 {
				continue
			}
			switch p[0] {
			case "v":
				nv++
			case "f":
				nf++
				for _, c := range p[1:] {
					idx, err := strconv.Atoi(strings.Split(c, "/")[0])
					if err != nil || idx < 1 || idx > nv {
						return &Finding{kind + "|vertex-index", fmt.Sprintf("face line %q with %d vertices declared", l, nv)}
					}
				}
			}
		}
		if nf != len(tris) {
			return &Finding{kind + "|face-count", fmt.Sprintf("%d f-lines for %d triangles", nf, len(tris))}
		}
		return nil
	}
	return &Finding{kind + "|members", "no object.obj in the archive"}
}

func faceMultiset(ts []*model3d.Triangle) string {
	var l []string
	for _, t := range ts {
		l = append(l, fmt.Sprint(round32(t[0]), round32(t[1]), round32(t[2])))
	}
	sortStringsC15(l)
	return fmt.Sprint(l)
}

func sortStringsC15(s []string) {
	for i := 1; i < len(s); i++ {
		for j := i; j > 0 && s[j] < s[j-1]; j-- {
			s[j], s[j-1] = s[j-1], s[j]
		}
	}
}

func runEncodeSession(src *choice.Source, st *Stats) (fs []Finding) {
	defer recoverTo("session", &fs)
	n := 2 + src.Intn(3)
	var exps []*export
	if src.Chance(1, 3) {
		// before the exports: a caller builds its own header from the elements the
		// library hands out and adapts them (wider coordinates, another index type) -
		// whatever it does to ITS header must not change what the mesh API writes
		ve, fe := fileformats.NewPLYElementColoredVertex(2), fileformats.NewPLYElementFace(1)
		for _, p := range ve.Properties {
			if src.Chance(1, 2) {
				p.ElemType = fileformats.PLYPropertyTypeDouble
			}
		}
		fe.Properties[0].LenType = fileformats.PLYPropertyTypeUint
		fe.Properties[0].Name = "vertex_indices"
		ve.Name = "point"
		var sink bytes.Buffer
		if pw, err := fileformats.NewPLYWriter(&sink, &fileformats.PLYHeader{Format: fileformats.PLYFormatASCII, Elements: []*fileformats.PLYElement{ve}}); err == nil {
			_ = pw
		}
		st.shape("session: custom header from library constructors")
	}
	for i := 0; i < n; i++ {
		tris := genMesh(src, meshgen.AllowPlain|1<<meshgen.FlNineDigits, st)
		if src.Chance(1, 4) {
			tris = bigMesh(src, 40, 200)
		}
		exps = append(exps, makeExport(src, st, src.Intn(4), tris))
	}
	st.NonTrivial = true
	st.shape(fmt.Sprintf("session exports=%d", n))
	st.Sample = map[string]any{"kind": "encode_session", "exports": n}
	for i, e := range exps {
		if !bytes.Equal(e.data, e.copyOf) {
			fs = append(fs, Finding{"session|" + e.name + "|bytes-changed", fmt.Sprintf("export %d of %d (%s, %d bytes): the bytes handed to the caller changed while %d later exports were made", i, n, e.name, len(e.copyOf), n-1-i)})
			return
		}
		if f := e.check(e.data); f != nil {
			f.Msg = fmt.Sprintf("export %d of %d: %s", i, n, f.Msg)
			fs = append(fs, *f)
			return
		}
	}
	return
}

// ---------------------------------------------------------------- concurrent exports
//
// Several simulated clients export their own meshes to their own simulated files
// at the same time.  The disk is slow: every Write of every file is a scheduling
// point, so the simulator decides how the exports interleave (which one is parked
// in the middle of a buffered flush while another one runs).  Every file must be
// byte-identical to the file its writer produces when it runs alone.

type slowDisk struct {
	w  *simio.Writer
	id int
}

func (d *slowDisk) Write(p []byte) (int, error) {
	simsched.Yield("disk.write", d.id)
	return d.w.Write(p)
}

type client struct {
	name string
	run  func(w *slowDisk) error
	solo func(w *simio.Writer) error
}

func makeClient(src *choice.Source) *client {
	tris := bigMesh(src, 1, 160)
	salt := src.U64()
	colorFunc := func(c model3d.Coord3D) [3]uint8 {
		h := choice.Derive(salt, fmt.Sprint(c.X+0, c.Y+0, c.Z+0))
		return [3]uint8{uint8(h), uint8(h >> 8), uint8(h >> 16)}
	}
	c := &client{}
	var f func(w interface {
		Write([]byte) (int, error)
	}) error
	switch src.Intn(6) {
	case 0:
		c.name = "WriteSTL"
		f = func(w interface{ Write([]byte) (int, error) }) error { return model3d.WriteSTL(w, tris) }
	case 1, 2:
		c.name = "WritePLY"
		f = func(w interface{ Write([]byte) (int, error) }) error { return model3d.WritePLY(w, tris, colorFunc) }
	case 3:
		c.name = "SegmentCSVWriter"
		f = func(w interface{ Write([]byte) (int, error) }) error {
			cw := fileformats.NewSegmentCSVWriter(w)
			for _, t := range tris {
				if err := cw.Write([4]float64{t[0].X, t[0].Y, t[1].X, t[1].Y}); err != nil {
					return err
				}
			}
			return nil
		}
	case 4:
		c.name = "PLYWriter"
		f = func(w interface{ Write([]byte) (int, error) }) error {
			h := &fileformats.PLYHeader{Format: fileformats.PLYFormat(salt % 3), Elements: []*fileformats.PLYElement{
				{Name: "vertex", Count: int64(3 * len(tris)), Properties: []*fileformats.PLYProperty{
					{Name: "x", ElemType: fileformats.PLYPropertyTypeDouble},
					{Name: "y", ElemType: fileformats.PLYPropertyTypeFloat},
					{Name: "tag", LenType: fileformats.PLYPropertyTypeUchar, ElemType: fileformats.PLYPropertyTypeInt},
				}},
			}}
			pw, err := fileformats.NewPLYWriter(w, h)
			if err != nil {
				return err
			}
			for i, t := range tris {
				for j, v := range t {
					row := []fileformats.PLYValue{fileformats.PLYValueFloat64{Value: v.X}, fileformats.PLYValueFloat32{Value: float32(v.Y)},
						fileformats.PLYValueList{Length: fileformats.PLYValueUint8{Value: 2}, Values: []fileformats.PLYValue{
							fileformats.PLYValueInt32{Value: int32(i)}, fileformats.PLYValueInt32{Value: int32(j)}}}}
					if err := pw.Write(row); err != nil {
						return err
					}
				}
			}
			return nil
		}
	default:
		c.name = "STLWriter"
		f = func(w interface{ Write([]byte) (int, error) }) error {
			sw, err := fileformats.NewSTLWriter(w, uint32(len(tris)))
			if err != nil {
				return err
			}
			for _, t := range tris {
				var v [3][3]float32
				for j, p := range t {
					v[j] = [3]float32{float32(p.X), float32(p.Y), float32(p.Z)}
				}
				if err := sw.WriteTriangle([3]float32{0, 0, 1}, v); err != nil {
					return err
				}
			}
			return nil
		}
	}
	c.run = func(w *slowDisk) error { return f(w) }
	c.solo = func(w *simio.Writer) error { return f(w) }
	return c
}

func runConcurrentExport(t *testing.T, src, sched *choice.Source, st *Stats) (fs []Finding) {
	defer recoverTo("concurrent_export", &fs)
	defer runtime.GOMAXPROCS(runtime.GOMAXPROCS(0))
	n := 2 + src.Intn(3)
	clients := make([]*client, n)
	solo := make([][]byte, n)
	names := ""
	for i := range clients {
		clients[i] = makeClient(src)
		names += clients[i].name + " "
		w := simio.NewWriter(simio.WriteFaults{})
		if err := clients[i].solo(w); err != nil {
			return []Finding{{"concurrent_export|solo-error", clients[i].name + ": " + err.Error()}}
		}
		w2 := simio.NewWriter(simio.WriteFaults{})
		clients[i].solo(w2)
		if !bytes.Equal(w.Buf, w2.Buf) {
			// the writer's output is not a function of its input (it may legitimately
			// walk a map or stamp something): it cannot serve as its own reference, so
			// the case is discarded and counted, not judged
			st.shape("discarded: " + clients[i].name + " not byte-deterministic alone")
			return nil
		}
		solo[i] = w.Buf
		st.Files++
		st.Bytes += int64(len(w.Buf))
	}
	sticky := src.Intn(4)
	gmp := []int{1, 1, 2, 4}[src.Intn(4)]
	runtime.GOMAXPROCS(gmp)
	disks := make([]*slowDisk, n)
	errs := make([]error, n)
	res := simsched.Run(t, simsched.Config{Src: sched, Sticky: sticky, Policy: simsched.DrawPolicy(sched)}, func() {
		done := make(chan int, n)
		for i := range clients {
			disks[i] = &slowDisk{w: simio.NewWriter(simio.WriteFaults{}), id: i}
			go func(i int) {
				simsched.Yield("export.start", i)
				errs[i] = clients[i].run(disks[i])
				done <- i
			}(i)
		}
		for i := 0; i < n; i++ {
			simsched.Yield("export.wait", i)
			<-done
		}
	})
	st.NonTrivial = res.Preemptions > 0
	st.Steps += int64(res.Steps)
	st.shape(fmt.Sprintf("concurrent exports=%d", n))
	st.Sample = map[string]any{"kind": "concurrent_export", "clients": names, "sched_steps": res.Steps, "preemptions": res.Preemptions}
	desc := fmt.Sprintf("%d concurrent exports (%s) GOMAXPROCS=%d, %d scheduler steps, %d preemptions", n, names, gmp, res.Steps, res.Preemptions)
	switch {
	case res.Deadlock:
		return []Finding{{"concurrent_export|deadlock", desc + fmt.Sprintf(": all goroutines blocked (parked %v)", res.Blocked)}}
	case res.Livelock:
		return []Finding{{"concurrent_export|livelock", desc}}
	case res.Panic != nil:
		return []Finding{{"concurrent_export|panic", fmt.Sprintf("%s: %v\n%s", desc, res.Panic, res.PanicStack)}}
	}
	for i := range clients {
		if errs[i] != nil {
			fs = append(fs, Finding{"concurrent_export|" + clients[i].name + "|error", fmt.Sprintf("%s: client %d: %v", desc, i, errs[i])})
			continue
		}
		if !bytes.Equal(disks[i].w.Buf, solo[i]) {
			k := 0
			for k < len(solo[i]) && k < len(disks[i].w.Buf) && solo[i][k] == disks[i].w.Buf[k] {
				k++
			}
			fs = append(fs, Finding{"concurrent_export|" + clients[i].name + "|bytes", fmt.Sprintf("%s: the file of client %d (%s) differs from the file the same export produces alone: %d vs %d bytes, first difference at offset %d",
				desc, i, clients[i].name, len(disks[i].w.Buf), len(solo[i]), k)})
		}
	}
	return
}

var _ = model2d.XY

// ---------------------------------------------------------------- streaming mesh PLY
//
// The streaming mesh writer (explicit vertices with colours, explicit index
// triples) against ReadColorPLY: indices, order and colours come back as written.
func runPLYMeshStream(src *choice.Source, st *Stats) (fs []Finding) {
	defer recoverTo("ply_meshstream", &fs)
	nv := 1 + src.Intn(40)
	nt := src.Intn(60)
	pool := meshgen.Pool(src, nv, meshgen.AllowFinite)
	// the reader keys colours by coordinate: give == vertices the same colour
	colors := make([][3]uint8, nv)
	byCoord := map[model3d.Coord3D][3]uint8{}
	for i, p := range pool {
		k := round32(p)
		if c, ok := byCoord[k]; ok {
			colors[i] = c
		} else {
			colors[i] = [3]uint8{uint8(src.Intn(256)), uint8(src.Intn(256)), uint8(src.Intn(256))}
			byCoord[k] = colors[i]
		}
	}
	idx := make([][3]int, nt)
	for i := range idx {
		idx[i] = [3]int{src.Intn(nv), src.Intn(nv), src.Intn(nv)}
	}
	w := simio.NewWriter(simio.WriteFaults{})
	mw, err := fileformats.NewPLYMeshWriter(w, nv, nt)
	if err != nil {
		return []Finding{{"ply_meshstream|write-error", err.Error()}}
	}
	for i, p := range pool {
		if err := mw.WriteCoord(p.Array(), colors[i]); err != nil {
			return []Finding{{"ply_meshstream|write-error", fmt.Sprintf("vertex %d: %v", i, err)}}
		}
	}
	for i, t := range idx {
		if err := mw.WriteTriangle(t); err != nil {
			return []Finding{{"ply_meshstream|write-error", fmt.Sprintf("triangle %d: %v", i, err)}}
		}
	}
	st.Files++
	st.Bytes += int64(len(w.Buf))
	st.Faces += int64(nt)
	st.NonTrivial = nt > 0
	st.shape(fmt.Sprintf("ply mesh stream faces=%d", bucket(nt)))
	st.Sample = map[string]any{"kind": "ply_meshstream", "vertices": nv, "faces": nt, "bytes": len(w.Buf)}
	want := make([]*model3d.Triangle, nt)
	for i, t := range idx {
		want[i] = &model3d.Triangle{pool[t[0]], pool[t[1]], pool[t[2]]}
	}
	for _, d := range deliveries(src, len(w.Buf)) {
		r := simio.NewReader(w.Buf, d)
		got, cm, err := model3d.ReadColorPLY(r)
		st.account(r)
		if err != nil {
			fs = append(fs, Finding{"ply_meshstream|read-error", fmt.Sprintf("delivery %+v: %v", d, err)})
			continue
		}
		if f := compareTrisEq("ply_meshstream", want, got, round32, numEq); f != nil {
			f.Msg = fmt.Sprintf("delivery %+v: %s", d, f.Msg)
			fs = append(fs, *f)
			continue
		}
		for i, t := range got {
			for j, v := range t {
				c, ok := cm.Load(v)
				if !ok || c != byCoord[v] {
					fs = append(fs, Finding{"ply_meshstream|color", fmt.Sprintf("face %d vertex %d %v: colour %v (present: %v), written %v", i, j, v, c, ok, byCoord[v])})
					return
				}
			}
		}
	}
	return
}
