package c15

import (
	"bytes"
	"fmt"
	"io"
	"math"
	"math/big"
	"sort"
	"strconv"
	"strings"

	"github.com/unixpickle/model3d/fileformats"
	"github.com/unixpickle/model3d/model2d"
	"github.com/unixpickle/model3d/model3d"
	"verif/harness/choice"
	"verif/harness/meshgen"
	"verif/harness/simio"
)

func genMesh(src *choice.Source, allow uint32, st *Stats) []*model3d.Triangle {
	nf := 0
	switch src.Intn(6) {
	case 0:
		nf = 0
	case 1:
		nf = 1
	default:
		nf = 2 + src.Intn(40)
	}
	np := 3 + src.Intn(12)
	if src.Chance(1, 3) {
		allow = meshgen.AllowPlain
	}
	pool := meshgen.Pool(src, np, allow)
	if allow&(1<<meshgen.FlSubnormal32) != 0 && src.Chance(1, 3) {
		// (only for formats fed the full float32 range: 3MF keeps 32 decimal places)
		// near twins: vertices that differ only by a component so small that it is
		// lost when the coordinates are summed (the library's coordinate hash is such
		// a sum) but survives as a float32 - a writer that shares vertices must still
		// keep them apart
		tiny := []float64{1.401298464324817e-45, -1.401298464324817e-45, 1e-30, -1e-30, 1e-38}
		big := []float64{1, 2, 3, -2.5, 1024, 8.5e37}
		for k := 0; k < 1+src.Intn(3); k++ {
			v := [3]float64{big[src.Intn(len(big))], big[src.Intn(len(big))], big[src.Intn(len(big))]}
			axis := src.Intn(3)
			v[axis] = 0
			w := v
			w[axis] = tiny[src.Intn(len(tiny))]
			u := v
			u[axis] = tiny[src.Intn(len(tiny))]
			pool = append(pool, model3d.NewCoord3DArray(v), model3d.NewCoord3DArray(w), model3d.NewCoord3DArray(u))
		}
		st.shape("near-twin vertices")
	}
	tris := meshgen.Triangles(src, pool, nf)
	if src.Chance(1, 40) {
		// (drawn last) a file far larger than any internal buffer: hundreds of KiB
		nf = 1400 + src.Intn(5000)
		tris = meshgen.Triangles(src, pool, nf)
		st.shape("big file (1400..6400 faces)")
	}
	st.Faces += int64(nf)
	st.NonTrivial = nf > 0
	st.shape(fmt.Sprintf("faces=%d", bucket(nf)))
	return tris
}

func bucket(n int) int {
	switch {
	case n <= 2:
		return n
	case n <= 8:
		return 8
	case n <= 32:
		return 32
	}
	return 64
}

// ---------------------------------------------------------------- binary STL

func runSTLMesh(src *choice.Source, st *Stats) (fs []Finding) {
	defer recoverTo("stl_mesh", &fs)
	tris := genMesh(src, meshgen.AllowAll, st)
	w := simio.NewWriter(simio.WriteFaults{})
	guard := guardInput("stl_mesh", tris)
	if err := model3d.WriteSTL(w, tris); err != nil {
		return []Finding{{"stl_mesh|write-error", err.Error()}}
	}
	if f := guard(); f != nil {
		return []Finding{*f}
	}
	if !bytes.Equal(w.Buf, model3d.EncodeSTL(tris)) {
		fs = append(fs, Finding{"stl_mesh|encode-vs-write", "EncodeSTL and WriteSTL produced different bytes"})
	}
	if len(w.Buf) != 84+50*len(tris) {
		fs = append(fs, Finding{"stl_mesh|size", fmt.Sprintf("binary STL of %d faces has %d bytes", len(tris), len(w.Buf))})
	}
	st.Files++
	st.Bytes += int64(len(w.Buf))
	st.Sample = map[string]any{"kind": "stl_mesh", "faces": len(tris), "bytes": len(w.Buf)}
	for _, d := range deliveries(src, len(w.Buf)) {
		r := simio.NewReader(w.Buf, d)
		got, err := model3d.ReadSTL(r)
		st.account(r)
		if err != nil {
			fs = append(fs, Finding{"stl_mesh|read-error", fmt.Sprintf("delivery %+v: %v", d, err)})
			continue
		}
		if f := compareTris("stl_mesh", tris, got, round32); f != nil {
			f.Msg = fmt.Sprintf("delivery %+v: %s", d, f.Msg)
			fs = append(fs, *f)
		}
	}
	if len(fs) == 0 {
		// the same file inside a container: a seekable stream positioned at its start
		sr := positioned(src, w.Buf)
		got, err := model3d.ReadSTL(sr)
		if err != nil {
			fs = append(fs, Finding{"stl_mesh|positioned-read-error", fmt.Sprintf("seekable stream positioned at offset %d of %d: %v", len(sr.Data)-len(w.Buf), len(sr.Data), err)})
		} else if f := compareTris("stl_mesh|positioned", tris, got, round32); f != nil {
			f.Msg = fmt.Sprintf("seekable stream positioned at offset %d: %s", len(sr.Data)-len(w.Buf), f.Msg)
			fs = append(fs, *f)
		}
	}
	return
}

func runSTLStream(src *choice.Source, st *Stats) (fs []Finding) {
	defer recoverTo("stl_stream", &fs)
	n := src.Intn(20)
	type rec struct {
		n [3]float32
		v [3][3]float32
	}
	recs := make([]rec, n)
	for i := range recs {
		for j := 0; j < 3; j++ {
			recs[i].n[j] = float32(meshgen.Scalar(src, meshgen.AllowAll))
			for k := 0; k < 3; k++ {
				recs[i].v[j][k] = float32(meshgen.Scalar(src, meshgen.AllowAll))
			}
		}
	}
	w := simio.NewWriter(simio.WriteFaults{})
	sw, err := fileformats.NewSTLWriter(w, uint32(n))
	if err != nil {
		return []Finding{{"stl_stream|write-error", err.Error()}}
	}
	for _, r := range recs {
		if err := sw.WriteTriangle(r.n, r.v); err != nil {
			return []Finding{{"stl_stream|write-error", err.Error()}}
		}
	}
	st.Files++
	st.Bytes += int64(len(w.Buf))
	st.NonTrivial = n > 0
	st.shape(fmt.Sprintf("records=%d", bucket(n)))
	st.Sample = map[string]any{"kind": "stl_stream", "records": n, "bytes": len(w.Buf)}
	eq := func(a, b float32) bool { return sameBits(float64(a), float64(b)) }
	for _, d := range deliveries(src, len(w.Buf)) {
		r := simio.NewReader(w.Buf, d)
		sr, err := fileformats.NewSTLReader(r)
		if err != nil {
			fs = append(fs, Finding{"stl_stream|read-error", fmt.Sprintf("delivery %+v: %v", d, err)})
			continue
		}
		if !sr.IsBinary() || int(sr.NumTriangles()) != n {
			fs = append(fs, Finding{"stl_stream|header", fmt.Sprintf("binary=%v count=%d want %d", sr.IsBinary(), sr.NumTriangles(), n)})
		}
		i := 0
		for {
			nrm, v, err := sr.ReadTriangle()
			if err != nil {
				if err.Error() != "EOF" {
					fs = append(fs, Finding{"stl_stream|read-error", fmt.Sprintf("delivery %+v record %d: %v", d, i, err)})
				}
				break
			}
			if i >= n {
				fs = append(fs, Finding{"stl_stream|extra-record", "reader returned more records than written"})
				break
			}
			for j := 0; j < 3; j++ {
				if !eq(nrm[j], recs[i].n[j]) {
					fs = append(fs, Finding{"stl_stream|normal", fmt.Sprintf("record %d normal %v != %v", i, nrm, recs[i].n)})
				}
				for k := 0; k < 3; k++ {
					if !eq(v[j][k], recs[i].v[j][k]) {
						fs = append(fs, Finding{"stl_stream|coord", fmt.Sprintf("record %d vertex %v != %v", i, v, recs[i].v)})
					}
				}
			}
			i++
		}
		st.account(r)
		if i != n {
			fs = append(fs, Finding{"stl_stream|record-count", fmt.Sprintf("delivery %+v: read %d of %d records", d, i, n)})
		}
	}
	return
}

func fmt32(x float32, nine bool) string {
	if nine {
		return strconv.FormatFloat(float64(x), 'e', 8, 32)
	}
	return strconv.FormatFloat(float64(x), 'g', -1, 32)
}

func runSTLASCII(src *choice.Source, st *Stats) (fs []Finding) {
	defer recoverTo("stl_ascii", &fs)
	tris := genMesh(src, meshgen.AllowFinite, st)
	var b strings.Builder
	name := []string{"", " obj", " a b c"}[src.Intn(3)]
	b.WriteString("solid" + name + "\n")
	nine := src.Chance(1, 2)
	indent := []string{"", " ", "\t", "    "}[src.Intn(4)]
	for _, t := range tris {
		fmt.Fprintf(&b, "%sfacet normal 0 0 1\n%s%souter loop\n", indent, indent, indent)
		for _, v := range t {
			fmt.Fprintf(&b, "%s%s%svertex %s %s %s\n", indent, indent, indent, fmt32(float32(v.X), nine), fmt32(float32(v.Y), nine), fmt32(float32(v.Z), nine))
		}
		fmt.Fprintf(&b, "%s%sendloop\n%sendfacet\n", indent, indent, indent)
	}
	b.WriteString("endsolid" + name)
	if src.Chance(1, 2) {
		b.WriteString("\n")
	}
	data := []byte(b.String())
	st.Files++
	st.Bytes += int64(len(data))
	st.shape("ascii-stl")
	st.Sample = map[string]any{"kind": "stl_ascii", "faces": len(tris), "bytes": len(data), "head": string(data[:min(len(data), 80)])}
	for _, d := range deliveries(src, len(data)) {
		r := simio.NewReader(data, d)
		got, err := model3d.ReadSTL(r)
		st.account(r)
		if err != nil {
			fs = append(fs, Finding{"stl_ascii|read-error", fmt.Sprintf("delivery %+v: %v", d, err)})
			continue
		}
		if f := compareTris("stl_ascii", tris, got, round32); f != nil {
			f.Msg = fmt.Sprintf("delivery %+v: %s", d, f.Msg)
			fs = append(fs, *f)
		}
	}
	if len(fs) > 0 {
		return
	}
	// the same faces once more in another legal layout (drawn last so that recorded
	// tapes keep their meaning): CRLF line ends, blank lines, long solid names,
	// several blanks or tabs between tokens, explicit signs and exponents
	eol := []string{"\n", "\r\n"}[src.Intn(2)]
	blank := src.Chance(1, 3)
	sep := []string{" ", "  ", "\t", " \t "}[src.Intn(4)]
	long := ""
	if src.Chance(1, 4) {
		long = " " + strings.Repeat("n", 100+src.Intn(700))
	}
	numStyle := src.Intn(5)
	// style 4: long decimals that lie just beside the midpoint of two neighbouring
	// float32 values.  The format holds single precision, so the value read back
	// must be the float32 nearest to the decimal (computed here exactly with
	// math/big); rounding through a float64 first gives the other neighbour.
	expect := map[string]float32{}
	num := func(x float32) string {
		switch numStyle {
		case 4:
			if x != x || math.IsInf(float64(x), 0) || x == 0 || math.Abs(float64(x)) > 1e30 || math.Abs(float64(x)) < 1e-30 {
				break
			}
			y := math.Nextafter32(x, float32(math.Inf(1)))
			mid := (float64(x) + float64(y)) / 2 // exact in float64
			tok := new(big.Float).SetPrec(400).SetFloat64(mid).Text('f', 80)
			tok = strings.TrimRight(tok, "0")
			if !strings.Contains(tok, ".") {
				tok += "."
			}
			// one more digit far behind: just above the midpoint in magnitude
			tok += "00000000001"
			bf, _, err := big.ParseFloat(tok, 10, 600, big.ToNearestEven)
			if err != nil {
				break
			}
			f32, _ := bf.Float32()
			expect[tok] = f32
			return tok
		}
		switch numStyle {
		case 1:
			return strconv.FormatFloat(float64(x), 'E', 8, 32)
		case 2:
			s := strconv.FormatFloat(float64(x), 'f', -1, 32)
			if !strings.HasPrefix(s, "-") && !strings.HasPrefix(s, "+") && x == x {
				return "+" + s
			}
			return s
		case 3:
			return strconv.FormatFloat(float64(x), 'e', -1, 32)
		}
		return strconv.FormatFloat(float64(x), 'g', -1, 32)
	}
	var sb strings.Builder
	line := func(toks ...string) {
		sb.WriteString(indent + strings.Join(toks, sep) + eol)
		if blank {
			sb.WriteString(eol)
		}
	}
	// (the file must begin with the keyword itself: no indent on the solid lines)
	sb.WriteString("solid" + long + eol)
	for _, t := range tris {
		line("facet", "normal", "0", "0", "1")
		line("outer", "loop")
		for _, v := range t {
			line("vertex", num(float32(v.X)), num(float32(v.Y)), num(float32(v.Z)))
		}
		line("endloop")
		line("endfacet")
	}
	sb.WriteString("endsolid" + long + eol)
	sdata := []byte(sb.String())
	st.Files++
	st.Bytes += int64(len(sdata))
	st.shape(fmt.Sprintf("ascii-stl styled crlf=%v blank=%v num=%d", eol != "\n", blank, numStyle))
	for _, d := range deliveries(src, len(sdata)) {
		r := simio.NewReader(sdata, d)
		got, err := model3d.ReadSTL(r)
		st.account(r)
		if err != nil {
			fs = append(fs, Finding{"stl_ascii|styled-read-error", fmt.Sprintf("delivery %+v: %v; file starts %q", d, err, trunc(sdata))})
			continue
		}
		want := tris
		if numStyle == 4 {
			want = make([]*model3d.Triangle, len(tris))
			for i, t := range tris {
				w := *t
				for j, v := range t {
					c := [3]float64{float64(float32(v.X)), float64(float32(v.Y)), float64(float32(v.Z))}
					for a, x := range [3]float32{float32(v.X), float32(v.Y), float32(v.Z)} {
						if e, ok := expect[num(x)]; ok {
							c[a] = float64(e)
						}
					}
					w[j] = model3d.XYZ(c[0], c[1], c[2])
				}
				want[i] = &w
			}
		}
		if f := compareTris("stl_ascii|styled", want, got, round32); f != nil {
			f.Msg = fmt.Sprintf("delivery %+v: %s; file starts %q", d, f.Msg, trunc(sdata))
			fs = append(fs, *f)
		}
	}
	if len(fs) > 0 || !src.Chance(1, 5) {
		return
	}
	// (drawn last) very long lines: the format has no line-length limit, and files
	// in the wild carry whole paths or base64 blobs as the solid's name and lines
	// padded with blanks.  Lengths around the usual buffer sizes of line readers.
	n := []int{4095, 4096, 4097, 65535, 65536, 65537, 70000, 1 << 17}[src.Intn(8)]
	where := src.Intn(4) // 0 name, 1 trailing blanks on a body line, 2 leading blanks, 3 blanks between tokens
	target := 0
	if len(tris) > 0 {
		target = src.Intn(len(tris) * 7)
	}
	var lb strings.Builder
	lineNo := 0
	bodyLine := func(toks ...string) {
		pre, gap, post := "", " ", ""
		if lineNo == target {
			switch where {
			case 1:
				post = strings.Repeat(" ", n)
			case 2:
				pre = strings.Repeat(" ", n)
			case 3:
				gap = strings.Repeat(" ", n)
			}
		}
		lineNo++
		lb.WriteString(pre + strings.Join(toks, gap) + post + "\n")
	}
	nm := ""
	if where == 0 || len(tris) == 0 {
		nm = " " + strings.Repeat("x", n)
	}
	lb.WriteString("solid" + nm + "\n")
	for _, t := range tris {
		bodyLine("facet", "normal", "0", "0", "1")
		bodyLine("outer", "loop")
		for _, v := range t {
			bodyLine("vertex", fmt32(float32(v.X), true), fmt32(float32(v.Y), true), fmt32(float32(v.Z), true))
		}
		bodyLine("endloop")
		bodyLine("endfacet")
	}
	lb.WriteString("endsolid" + nm + "\n")
	ldata := []byte(lb.String())
	st.Files++
	st.Bytes += int64(len(ldata))
	st.shape(fmt.Sprintf("ascii-stl long line where=%d", where))
	for _, d := range deliveries(src, len(ldata))[:2] {
		r := simio.NewReader(ldata, d)
		got, err := model3d.ReadSTL(r)
		st.account(r)
		if err != nil {
			fs = append(fs, Finding{"stl_ascii|long-line-read-error", fmt.Sprintf("delivery %+v: a line of %d bytes (case %d): %v", d, n, where, err)})
			continue
		}
		if f := compareTris("stl_ascii|long-line", tris, got, round32); f != nil {
			f.Msg = fmt.Sprintf("delivery %+v: a line of %d bytes (case %d): %s", d, n, where, f.Msg)
			fs = append(fs, *f)
		}
	}
	return
}

// ---------------------------------------------------------------- coloured PLY

func runPLYMesh(src *choice.Source, st *Stats) (fs []Finding) {
	defer recoverTo("ply_mesh", &fs)
	tris := genMesh(src, meshgen.AllowAll, st)
	salt := src.U64()
	colorFunc := func(c model3d.Coord3D) [3]uint8 {
		h := choice.Derive(salt, fmt.Sprint(c.X, c.Y, c.Z))
		return [3]uint8{uint8(h), uint8(h >> 8), uint8(h >> 16)}
	}
	w := simio.NewWriter(simio.WriteFaults{})
	guard := guardInput("ply_mesh", tris)
	if err := model3d.WritePLY(w, tris, colorFunc); err != nil {
		return []Finding{{"ply_mesh|write-error", err.Error()}}
	}
	if f := guard(); f != nil {
		return []Finding{*f}
	}
	if !bytes.Equal(w.Buf, model3d.EncodePLY(tris, colorFunc)) {
		fs = append(fs, Finding{"ply_mesh|encode-vs-write", "EncodePLY and WritePLY produced different bytes"})
	}
	st.Files++
	st.Bytes += int64(len(w.Buf))
	st.Sample = map[string]any{"kind": "ply_mesh", "faces": len(tris), "bytes": len(w.Buf)}
	// colours that an original vertex may legitimately read back as: any colour of
	// an original vertex with the same float32 image.
	allowed := map[model3d.Coord3D]map[[3]uint8]bool{}
	for _, t := range tris {
		for _, v := range t {
			k := round32(v)
			if k.X == 0 {
				k.X = 0 // +0/-0 compare equal as map keys already
			}
			if allowed[k] == nil {
				allowed[k] = map[[3]uint8]bool{}
			}
			allowed[k][colorFunc(v)] = true
		}
	}
	for _, d := range deliveries(src, len(w.Buf)) {
		r := simio.NewReader(w.Buf, d)
		got, colors, err := model3d.ReadColorPLY(r)
		st.account(r)
		if err != nil {
			fs = append(fs, Finding{"ply_mesh|read-error", fmt.Sprintf("delivery %+v: %v", d, err)})
			continue
		}
		if f := compareTrisEq("ply_mesh", tris, got, round32, numEq); f != nil {
			f.Msg = fmt.Sprintf("delivery %+v: %s", d, f.Msg)
			fs = append(fs, *f)
			continue
		}
		for i, t := range got {
			for j, v := range t {
				c, ok := colors.Load(v)
				if !ok {
					fs = append(fs, Finding{"ply_mesh|color-missing", fmt.Sprintf("face %d vertex %d %v has no colour", i, j, v)})
				} else if !allowed[v][c] {
					fs = append(fs, Finding{"ply_mesh|color", fmt.Sprintf("face %d vertex %d %v colour %v not among written %v", i, j, v, c, allowed[v])})
				}
			}
		}
	}
	if len(fs) == 0 {
		sr := positioned(src, w.Buf)
		got, _, err := model3d.ReadColorPLY(sr)
		if err != nil {
			fs = append(fs, Finding{"ply_mesh|positioned-read-error", fmt.Sprintf("seekable stream positioned at offset %d of %d: %v", len(sr.Data)-len(w.Buf), len(sr.Data), err)})
		} else if f := compareTrisEq("ply_mesh|positioned", tris, got, round32, numEq); f != nil {
			fs = append(fs, *f)
		}
	}
	return
}

// ---------------------------------------------------------------- OFF text

func runOFF(src *choice.Source, st *Stats) (fs []Finding) {
	defer recoverTo("off_text", &fs)
	np := 3 + src.Intn(10)
	pool := meshgen.Pool(src, np, meshgen.AllowFinite)
	nf := src.Intn(12)
	faces := make([][3]int, nf)
	for i := range faces {
		for j := range faces[i] {
			faces[i][j] = src.Intn(np)
		}
	}
	var b strings.Builder
	sameLine := src.Chance(1, 3)
	if sameLine {
		fmt.Fprintf(&b, "OFF %d %d %d\n", np, nf, 0)
	} else {
		fmt.Fprintf(&b, "OFF\n%d %d %d\n", np, nf, 0)
	}
	g := func(x float64) string { return strconv.FormatFloat(x, 'g', -1, 64) }
	for _, p := range pool {
		fmt.Fprintf(&b, "%s %s %s\n", g(p.X), g(p.Y), g(p.Z))
	}
	for i, f := range faces {
		if i == nf-1 && src.Chance(1, 4) {
			fmt.Fprintf(&b, "3 %d %d %d", f[0], f[1], f[2]) // no final newline
		} else {
			fmt.Fprintf(&b, "3 %d %d %d\n", f[0], f[1], f[2])
		}
	}
	data := []byte(b.String())
	want := make([]*model3d.Triangle, nf)
	for i, f := range faces {
		want[i] = &model3d.Triangle{pool[f[0]], pool[f[1]], pool[f[2]]}
	}
	st.Files++
	st.Bytes += int64(len(data))
	st.Faces += int64(nf)
	st.NonTrivial = nf > 0
	st.shape(fmt.Sprintf("off sameline=%v faces=%d", sameLine, bucket(nf)))
	st.Sample = map[string]any{"kind": "off_text", "faces": nf, "bytes": len(data)}
	for _, d := range deliveries(src, len(data)) {
		r := simio.NewReader(data, d)
		got, err := model3d.ReadOFF(r)
		st.account(r)
		if err != nil {
			fs = append(fs, Finding{"off_text|read-error", fmt.Sprintf("delivery %+v: %v; file %q", d, err, trunc(data))})
			continue
		}
		if f := compareTris("off_text", want, got, func(c model3d.Coord3D) model3d.Coord3D { return c }); f != nil {
			f.Msg = fmt.Sprintf("delivery %+v: %s", d, f.Msg)
			fs = append(fs, *f)
		}
	}
	if len(fs) > 0 {
		return
	}
	// the streaming reader: polygons of any size come back vertex for vertex, and
	// a caller that keeps every face until EOF still holds what was in the file
	npoly := src.Intn(10)
	polys := make([][]int, npoly)
	var pb strings.Builder
	fmt.Fprintf(&pb, "OFF\n%d %d 0\n", np, npoly)
	for _, p := range pool {
		fmt.Fprintf(&pb, "%s %s %s\n", g(p.X), g(p.Y), g(p.Z))
	}
	for i := range polys {
		k := 1 + src.Intn(8)
		fmt.Fprintf(&pb, "%d", k)
		for j := 0; j < k; j++ {
			polys[i] = append(polys[i], src.Intn(np))
			fmt.Fprintf(&pb, " %d", polys[i][j])
		}
		if !(i == npoly-1 && src.Chance(1, 4)) {
			pb.WriteString("\n")
		}
	}
	pdata := []byte(pb.String())
	st.Files++
	st.Bytes += int64(len(pdata))
	for _, d := range deliveries(src, len(pdata)) {
		r := simio.NewReader(pdata, d)
		or, err := fileformats.NewOFFReader(r)
		if err != nil {
			fs = append(fs, Finding{"off_stream|read-error", fmt.Sprintf("delivery %+v: header: %v; file %q", d, err, trunc(pdata))})
			continue
		}
		if or.NumFaces() != npoly {
			fs = append(fs, Finding{"off_stream|face-count", fmt.Sprintf("NumFaces() = %d, file declares %d", or.NumFaces(), npoly)})
			continue
		}
		same := func(face [][3]float64, idx []int) bool {
			if len(face) != len(idx) {
				return false
			}
			for j, v := range face {
				w := pool[idx[j]]
				if !sameBits(v[0], w.X) || !sameBits(v[1], w.Y) || !sameBits(v[2], w.Z) {
					return false
				}
			}
			return true
		}
		var kept [][][3]float64
		ok := true
		for i := 0; ; i++ {
			face, err := or.ReadFace()
			if err == io.EOF {
				break
			}
			if err != nil {
				fs = append(fs, Finding{"off_stream|read-error", fmt.Sprintf("delivery %+v: face %d of %d: %v; file %q", d, i, npoly, err, trunc(pdata))})
				ok = false
				break
			}
			if i >= npoly || !same(face, polys[i]) {
				fs = append(fs, Finding{"off_stream|face", fmt.Sprintf("delivery %+v: face %d read as %v; file %q", d, i, face, trunc(pdata))})
				ok = false
				break
			}
			kept = append(kept, face)
		}
		st.account(r)
		if !ok {
			continue
		}
		if len(kept) != npoly {
			fs = append(fs, Finding{"off_stream|face-count", fmt.Sprintf("delivery %+v: %d faces read, file has %d", d, len(kept), npoly)})
			continue
		}
		for i, face := range kept {
			if !same(face, polys[i]) {
				fs = append(fs, Finding{"off_stream|retained-face", fmt.Sprintf("delivery %+v: face %d changed after later faces were read: now %v", d, i, face)})
				break
			}
		}
	}
	if len(fs) > 0 {
		return
	}
	// the triangle file once more in another layout the reader accepts: tabs and
	// several blanks between tokens, blanks around lines, trailing blank lines,
	// exponent notation and explicit signs
	sep := []string{" ", "  ", "\t", " \t "}[src.Intn(4)]
	lead := []string{"", " ", "\t"}[src.Intn(3)]
	trail := []string{"", " ", "  \t"}[src.Intn(3)]
	numStyle := src.Intn(3)
	num := func(x float64) string {
		switch numStyle {
		case 1:
			return strconv.FormatFloat(x, 'E', -1, 64)
		case 2:
			s := strconv.FormatFloat(x, 'f', -1, 64)
			if !strings.HasPrefix(s, "-") && x == x {
				return "+" + s
			}
			return s
		}
		return strconv.FormatFloat(x, 'g', -1, 64)
	}
	var tb strings.Builder
	tb.WriteString("OFF\n")
	tb.WriteString(lead + strings.Join([]string{strconv.Itoa(np), strconv.Itoa(nf), "0"}, sep) + trail + "\n")
	for _, p := range pool {
		tb.WriteString(lead + strings.Join([]string{num(p.X), num(p.Y), num(p.Z)}, sep) + trail + "\n")
	}
	for _, f := range faces {
		tb.WriteString(lead + strings.Join([]string{"3", strconv.Itoa(f[0]), strconv.Itoa(f[1]), strconv.Itoa(f[2])}, sep) + trail + "\n")
	}
	tb.WriteString(strings.Repeat("\n", src.Intn(3)))
	tdata := []byte(tb.String())
	st.Files++
	st.Bytes += int64(len(tdata))
	for _, d := range deliveries(src, len(tdata)) {
		r := simio.NewReader(tdata, d)
		got, err := model3d.ReadOFF(r)
		st.account(r)
		if err != nil {
			fs = append(fs, Finding{"off_text|styled-read-error", fmt.Sprintf("delivery %+v: %v; file %q", d, err, trunc(tdata))})
			continue
		}
		if f := compareTris("off_text|styled", want, got, func(c model3d.Coord3D) model3d.Coord3D { return c }); f != nil {
			f.Msg = fmt.Sprintf("delivery %+v: %s", d, f.Msg)
			fs = append(fs, *f)
		}
	}
	if len(fs) == 0 {
		sr := positioned(src, data)
		got, err := model3d.ReadOFF(sr)
		if err != nil {
			fs = append(fs, Finding{"off_text|positioned-read-error", fmt.Sprintf("seekable stream positioned at offset %d of %d: %v", len(sr.Data)-len(data), len(sr.Data), err)})
		} else if f := compareTris("off_text|positioned", want, got, func(c model3d.Coord3D) model3d.Coord3D { return c }); f != nil {
			fs = append(fs, *f)
		}
	}
	return
}

func trunc(b []byte) string {
	if len(b) > 160 {
		return string(b[:160]) + "..."
	}
	return string(b)
}

// ---------------------------------------------------------------- segment CSV

func runCSV(src *choice.Source, st *Stats) (fs []Finding) {
	defer recoverTo("csv", &fs)
	np := 2 + src.Intn(8)
	pool := meshgen.Pool2(src, np, meshgen.AllowAll)
	ns := src.Intn(16)
	segs := meshgen.Segments(src, pool, ns)
	m := model2d.NewMesh()
	for _, s := range segs {
		m.Add(s)
	}
	data := model2d.EncodeCSV(m)
	canon := func(ss []*model2d.Segment) []string {
		var out []string
		for _, s := range ss {
			out = append(out, fmt.Sprintf("%016x %016x %016x %016x", bits(s[0].X), bits(s[0].Y), bits(s[1].X), bits(s[1].Y)))
		}
		sort.Strings(out)
		return out
	}
	got, err := model2d.DecodeCSV(data)
	st.Files++
	st.Bytes += int64(len(data))
	st.Rows += int64(ns)
	st.NonTrivial = ns > 0
	st.shape(fmt.Sprintf("csv rows=%d", bucket(ns)))
	st.Sample = map[string]any{"kind": "csv", "segments": ns, "bytes": len(data), "head": trunc(data)}
	if err != nil {
		return []Finding{{"csv|read-error", fmt.Sprintf("%v; file %q", err, trunc(data))}}
	}
	a, b := canon(m.SegmentSlice()), canon(got)
	if strings.Join(a, ";") != strings.Join(b, ";") {
		fs = append(fs, Finding{"csv|segments", fmt.Sprintf("wrote %d segments, read %d; file %q", len(a), len(b), trunc(data))})
	}
	// the streaming reader under every delivery
	for _, d := range deliveries(src, len(data)) {
		r := simio.NewReader(data, d)
		cr := fileformats.NewSegmentCSVReader(r)
		var rows []*model2d.Segment
		for {
			row, err := cr.Read()
			if err != nil {
				if err.Error() != "EOF" {
					fs = append(fs, Finding{"csv|stream-read-error", fmt.Sprintf("delivery %+v: %v", d, err)})
				}
				break
			}
			rows = append(rows, &model2d.Segment{model2d.XY(row[0], row[1]), model2d.XY(row[2], row[3])})
		}
		st.account(r)
		if strings.Join(canon(rows), ";") != strings.Join(a, ";") {
			fs = append(fs, Finding{"csv|stream-segments", fmt.Sprintf("delivery %+v: wrote %d segments, streamed %d", d, len(a), len(rows))})
		}
	}
	return
}
