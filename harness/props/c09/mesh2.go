//go:build verif

package c09

import (
	"fmt"
	"math"
	"sort"

	"github.com/unixpickle/model3d/model2d"
	"verif/harness/choice"
)

type seg = model2d.Segment

func norm2(c model2d.Coord) model2d.Coord { return model2d.XY(c.X+0, c.Y+0) }

func sameSegSet(a, b []*seg) bool {
	ma, mb := map[*seg]int{}, map[*seg]int{}
	for _, s := range a {
		ma[s]++
		if ma[s] > 1 {
			return false
		}
	}
	for _, s := range b {
		mb[s]++
	}
	if len(ma) != len(mb) {
		return false
	}
	for s := range ma {
		if mb[s] == 0 {
			return false
		}
	}
	return true
}

func coordSet2(cs []model2d.Coord) string {
	var out []string
	for _, c := range cs {
		c = norm2(c)
		out = append(out, fmt.Sprintf("%016x%016x", math.Float64bits(c.X), math.Float64bits(c.Y)))
	}
	sort.Strings(out)
	return fmt.Sprint(out)
}

func segValues(ss []*seg, flip bool) string {
	var out []string
	for _, s := range ss {
		a, b := s[0], s[1]
		if flip {
			a, b = b, a
		}
		out = append(out, coordSet2([]model2d.Coord{a})+">"+coordSet2([]model2d.Coord{b}))
	}
	sort.Strings(out)
	return fmt.Sprint(out)
}

type hist2 struct {
	real    *model2d.Mesh
	list    []*seg
	removed []*seg
	pool    []model2d.Coord
	trace   []string
}

func (h *hist2) has(s *seg) bool {
	for _, x := range h.list {
		if x == s {
			return true
		}
	}
	return false
}

func (h *hist2) fail(kind, msg string) []Finding {
	tr := h.trace
	if len(tr) > 40 {
		tr = tr[len(tr)-40:]
	}
	return []Finding{{"mesh2|" + kind, fmt.Sprintf("after %d operations: %s; history (last %d): %v", len(h.trace), msg, len(tr), tr)}}
}

func (h *hist2) checkFree() []Finding {
	if h.real.NumSegments() != len(h.list) {
		return h.fail("count", fmt.Sprintf("NumSegments() = %d, the list of current faces has %d", h.real.NumSegments(), len(h.list)))
	}
	var it []*seg
	h.real.Iterate(func(s *seg) { it = append(it, s) })
	if !sameSegSet(it, h.list) || !sameSegSet(h.real.SegmentSlice(), h.list) {
		return h.fail("iterate", "Iterate/SegmentSlice differ from the current faces")
	}
	for _, s := range h.list {
		if !h.real.Contains(s) {
			return h.fail("contains", "Contains is false for a current face")
		}
	}
	for _, s := range h.removed {
		if !h.has(s) && h.real.Contains(s) {
			return h.fail("contains", "Contains is true for a removed face")
		}
	}
	if len(h.list) > 0 {
		lo, hi := h.list[0][0], h.list[0][0]
		for _, s := range h.list {
			for _, c := range s {
				lo, hi = lo.Min(c), hi.Max(c)
			}
		}
		if norm2(h.real.Min()) != norm2(lo) || norm2(h.real.Max()) != norm2(hi) {
			return h.fail("bounds", "Min/Max differ from the span of the current faces")
		}
	}
	return nil
}

func (h *hist2) checkIndexed() []Finding {
	fresh := model2d.NewMeshSegments(h.list)
	var vs []model2d.Coord
	seen := map[model2d.Coord]bool{}
	for _, s := range h.list {
		for _, c := range s {
			if !seen[c] {
				seen[c] = true
				vs = append(vs, c)
			}
		}
	}
	if coordSet2(h.real.VertexSlice()) != coordSet2(vs) {
		return h.fail("vertexslice", fmt.Sprintf("VertexSlice has %d vertices, the current faces have %d distinct ones", len(h.real.VertexSlice()), len(vs)))
	}
	var iv []model2d.Coord
	h.real.IterateVertices(func(c model2d.Coord) { iv = append(iv, c) })
	if coordSet2(iv) != coordSet2(vs) {
		return h.fail("iteratevertices", "IterateVertices differs from the vertices of the current faces")
	}
	probe := append([]model2d.Coord{}, vs...)
	for _, c := range h.pool {
		if !seen[c] {
			probe = append(probe, c)
		}
	}
	for _, v := range probe {
		var want []*seg
		for _, s := range h.list {
			if s[0] == v || s[1] == v {
				want = append(want, s)
			}
		}
		if got := h.real.Find(v); !sameSegSet(got, want) {
			return h.fail("find", fmt.Sprintf("Find(%v) returned %d faces, %d current faces touch that vertex", v, len(got), len(want)))
		}
	}
	for i, s := range h.list {
		if i > 12 {
			break
		}
		far := h.pool[(i*5+3)%len(h.pool)]
		for qi, q := range [][]model2d.Coord{{s[0], s[1]}, {s[1], s[0], s[1]}, {s[0], s[0]}, {s[0], s[1], s[1], s[0]}, {s[0], far}, {s[0], s[1], far}} {
			var want []*seg
			for _, u := range h.list {
				all := true
				for _, p := range q {
					if p != u[0] && p != u[1] {
						all = false
					}
				}
				if all {
					want = append(want, u)
				}
			}
			if got := h.real.Find(q...); !sameSegSet(got, want) {
				return h.fail("findn", fmt.Sprintf("Find with %d points (query shape %d) returned %d faces, %d current faces contain all of them", len(q), qi, len(got), len(want)))
			}
		}
	}
	for i, s := range h.list {
		if i > 24 {
			break
		}
		if !sameSegSet(h.real.Neighbors(s), fresh.Neighbors(s)) {
			return h.fail("neighbors", fmt.Sprintf("Neighbors(face %d) differs from a freshly built mesh", i))
		}
		if !sameSegSet(h.real.Find(s[0], s[1]), fresh.Find(s[0], s[1])) {
			return h.fail("find2", "Find(a,b) differs from a freshly built mesh")
		}
	}
	an, fn := h.real.AllVertexNeighbors(), fresh.AllVertexNeighbors()
	for _, v := range vs {
		if coordSet2(an.Value(v)) != coordSet2(fn.Value(v)) {
			return h.fail("vertexneighbors", "AllVertexNeighbors differs from a freshly built mesh")
		}
	}
	if h.real.Manifold() != fresh.Manifold() {
		return h.fail("diagnostics", "Manifold() differs from a freshly built mesh")
	}
	return nil
}

func (h *hist2) newFace(src *choice.Source) *seg {
	s := &seg{h.pool[src.Intn(len(h.pool))], h.pool[src.Intn(len(h.pool))]}
	switch src.Intn(8) {
	case 0:
		s[1] = s[0]
	case 1:
		if len(h.list) > 0 {
			*s = *h.list[src.Intn(len(h.list))]
		}
	}
	return s
}

func runMesh2(src *choice.Source, st *Stats) (fs []Finding) {
	h := &hist2{pool: pool2(src)}
	for len(h.pool) < 4 {
		h.pool = append(h.pool, model2d.XY(float64(len(h.pool)), 1))
	}
	switch src.Intn(6) { // (recorded tapes hold reduced values, so the range may grow)
	case 4, 5:
		// bystander: a library operation that returns a new mesh is applied to a
		// closed outline (queried before or not, copied before or not) and its
		// result thrown away; the source and the earlier copy must not notice -
		// neither their face values nor, as the history goes on, their index
		var s0 *model2d.Mesh
		if src.Chance(1, 2) {
			// a rectangle outline with extra colinear vertices on every side
			k := 2 + src.Intn(3)
			corners := []model2d.Coord{model2d.XY(0, 0), model2d.XY(2, 0), model2d.XY(2, 1), model2d.XY(0, 1)}
			s0 = model2d.NewMesh()
			for c := range corners {
				a, b := corners[c], corners[(c+1)%4]
				for i := 0; i < k; i++ {
					p := a.Add(b.Sub(a).Scale(float64(i) / float64(k)))
					q := a.Add(b.Sub(a).Scale(float64(i+1) / float64(k)))
					if i+1 == k {
						q = b
					}
					s0.Add(&model2d.Segment{p, q})
				}
			}
		} else {
			s0 = model2d.NewMeshPolar(func(t float64) float64 { return 1 + 0.2*math.Sin(3*t) }, 8+src.Intn(12))
		}
		if src.Chance(1, 2) {
			s0.VertexSlice()
		}
		var cp *model2d.Mesh
		if src.Chance(1, 2) {
			cp = s0.Copy()
			if src.Chance(1, 2) {
				cp.VertexSlice()
			}
		}
		before := segValues(s0.SegmentSlice(), true)
		opName := ""
		switch src.Intn(8) {
		case 0:
			s0.EliminateColinear(1e-8)
			opName = "EliminateColinear"
		case 1:
			s0.Decimate(4 + src.Intn(6))
			opName = "Decimate"
		case 2:
			s0.Subdivide(1)
			opName = "Subdivide"
		case 3:
			s0.Repair(1e-8)
			opName = "Repair"
		case 4:
			s0.Smooth(1 + src.Intn(3))
			opName = "Smooth"
		case 5:
			s0.Blur(0.5)
			opName = "Blur"
		case 6:
			s0.Invert()
			opName = "Invert"
		default:
			s0.SubdividePath(1)
			opName = "SubdividePath"
		}
		h.trace = append(h.trace, "bystander of "+opName)
		if after := segValues(s0.SegmentSlice(), true); after != before {
			return []Finding{{"mesh2|bystander-values", fmt.Sprintf("%s changed the faces of the mesh it was called on (it returns a new mesh)", opName)}}
		}
		if cp != nil {
			if after := segValues(cp.SegmentSlice(), true); after != before {
				return []Finding{{"mesh2|bystander-values", fmt.Sprintf("%s changed the faces of an earlier Copy of the mesh it was called on", opName)}}
			}
		}
		h.real = s0
		if cp != nil && src.Chance(1, 2) {
			h.real = cp
		}
	case 0:
		h.real = model2d.NewMesh()
	case 1:
		var ss []*seg
		for i := 0; i < src.Intn(10); i++ {
			ss = append(ss, h.newFace(src))
		}
		h.real = model2d.NewMeshSegments(ss)
	case 2: // decimation edits the mesh in place internally
		m := model2d.NewMeshPolar(func(t float64) float64 { return 1 + 0.2*math.Sin(3*t) }, 12+src.Intn(20))
		h.real = m.Decimate(6 + src.Intn(6))
		h.trace = append(h.trace, "Decimate")
	case 3:
		m := model2d.NewMeshRect(model2d.XY(0, 0), model2d.XY(2, 1)).Subdivide(1 + src.Intn(2))
		h.real = m.EliminateColinear(1e-8)
		h.trace = append(h.trace, "EliminateColinear")
	}
	h.list = h.real.SegmentSlice()
	sort.SliceStable(h.list, func(i, j int) bool {
		return segValues([]*seg{h.list[i]}, false) < segValues([]*seg{h.list[j]}, false)
	})
	for _, s := range h.list {
		if len(h.pool) < 30 {
			h.pool = append(h.pool, s[0])
		}
	}
	if f := h.checkFree(); f != nil {
		return f
	}
	n := 3 + src.Intn(40)
	for step := 0; step < n; step++ {
		was := h.real.VerifHasVertexIndex()
		op := src.Intn(13)
		switch op {
		case 0, 1, 2:
			s := h.newFace(src)
			h.real.Add(s)
			h.list = append(h.list, s)
			h.trace = append(h.trace, "Add(new)")
		case 3:
			if len(h.list) > 0 {
				h.real.Add(h.list[src.Intn(len(h.list))])
				h.trace = append(h.trace, "Add(duplicate pointer)")
			}
		case 4, 5:
			if len(h.list) > 0 {
				i := src.Intn(len(h.list))
				s := h.list[i]
				h.real.Remove(s)
				h.list = append(h.list[:i:i], h.list[i+1:]...)
				h.removed = append(h.removed, s)
				h.trace = append(h.trace, "Remove(present)")
			}
		case 6:
			h.real.Remove(h.newFace(src))
			if len(h.removed) > 0 {
				if s := h.removed[src.Intn(len(h.removed))]; !h.has(s) {
					h.real.Remove(s)
				}
			}
			h.trace = append(h.trace, "Remove(absent)")
		case 7:
			other := model2d.NewMesh()
			var add []*seg
			for i := 0; i < src.Intn(4); i++ {
				add = append(add, h.newFace(src))
			}
			if len(h.list) > 0 {
				add = append(add, h.list[src.Intn(len(h.list))])
			}
			for _, s := range add {
				other.Add(s)
			}
			if len(add)%2 == 0 {
				other.VertexSlice() // both indexes exist (decided from values already drawn)
			}
			h.real.AddMesh(other)
			for _, s := range add {
				if !h.has(s) {
					h.list = append(h.list, s)
				}
			}
			h.trace = append(h.trace, "AddMesh")
		case 8:
			h.real.Find(h.pool[src.Intn(len(h.pool))])
			h.trace = append(h.trace, "Find -> index built")
		case 9:
			c := h.real.Copy()
			if !sameSegSet(c.SegmentSlice(), h.list) {
				return h.fail("copy", "Copy does not hold exactly the current faces")
			}
			if src.Chance(1, 2) {
				h.real = c
			} else {
				c.Add(h.newFace(src))
				if len(h.list) > 0 {
					c.Remove(h.list[0])
				}
			}
			h.trace = append(h.trace, "Copy")
		case 10:
			f := func(c model2d.Coord) model2d.Coord { return c.Scale(2) }
			name := "Scale"
			if src.Chance(1, 2) {
				name = "snap"
				f = func(c model2d.Coord) model2d.Coord { return model2d.XY(math.Round(c.X), math.Round(c.Y)) }
			}
			d := h.real.MapCoords(f)
			var want []*seg
			for _, s := range h.list {
				want = append(want, &seg{f(s[0]), f(s[1])})
			}
			h.trace = append(h.trace, "MapCoords("+name+")")
			if segValues(d.SegmentSlice(), false) != segValues(want, false) {
				return h.fail("mapcoords-faces", name+": derived mesh does not hold exactly the mapped faces")
			}
		case 11:
			inv := h.real.InvertNormals()
			h.trace = append(h.trace, "InvertNormals")
			if segValues(inv.SegmentSlice(), false) != segValues(h.list, true) {
				return h.fail("invertnormals-faces", fmt.Sprintf("InvertNormals returned %d faces for %d current faces, or did not reverse them", inv.NumSegments(), len(h.list)))
			}
			if segValues(inv.InvertNormals().SegmentSlice(), false) != segValues(h.list, false) {
				return h.fail("invertnormals-involution", "InvertNormals twice does not give back the faces")
			}
			if segValues(h.real.Invert().SegmentSlice(), false) != segValues(h.list, true) {
				return h.fail("invert-faces", "Invert did not reverse every face")
			}
		case 12:
			if f := h.checkIndexed(); f != nil {
				return f
			}
		}
		now := h.real.VerifHasVertexIndex()
		if !was && now {
			st.probe("index: absent -> built")
		} else if was && now && op <= 7 {
			st.probe("index: built -> patched by Add/Remove")
		}
		if f := h.checkFree(); f != nil {
			return f
		}
		if now {
			if f := h.checkIndexed(); f != nil {
				return f
			}
		}
		st.Ops++
	}
	if f := h.checkIndexed(); f != nil {
		return f
	}
	st.NonTrivial = true
	st.Desc = fmt.Sprintf("mesh2 history of %d operations, %d faces at the end", len(h.trace), len(h.list))
	return nil
}
