//go:build verif

package c09

import (
	"encoding/json"
	"fmt"
	"testing"
	"time"

	"verif/harness/choice"
	"verif/harness/simsched"
	"verif/harness/wproto"
)

func runOne(t *testing.T, c *Case, src, sched *choice.Source, out *wproto.Out, id int) {
	out.Begin(id)
	out.SetOnStuck(func() {
		c.Tape, c.Sched, c.Pol = src.Tape(), sched.Tape(), sched.AuxTape()
		sig, msg := out.StuckWhat()
		out.Finding(id, sig, "livelock", msg, c)
		out.End(id, []string{sig})
		out.Count("evaluations", 1)
		out.Finish("restart", id+1)
	})
	st := &Stats{}
	var fs []Finding
	func() {
		defer func() {
			if r := recover(); r != nil {
				c.Tape, c.Sched, c.Pol = src.Tape(), sched.Tape(), sched.AuxTape()
				msg := fmt.Sprint(r)
				cl := []byte(msg)
				for i, ch := range cl {
					if ch >= '0' && ch <= '9' {
						cl[i] = 'N'
					}
				}
				if len(cl) > 60 {
					cl = cl[:60]
				}
				fs = append(fs, Finding{c.Kind + "|panic|" + string(cl), "panic: " + msg})
			}
		}()
		fs = RunCase(t, c, src, sched, st)
	}()
	var sigs []string
	seen := map[string]bool{}
	for _, f := range fs {
		if !seen[f.Sig] {
			seen[f.Sig] = true
			sigs = append(sigs, f.Sig)
			out.Finding(id, f.Sig, "mismatch", f.Msg, c)
		}
	}
	out.Trace(id, st.MapDep, []any{st.TraceHashes, st.Ops, st.Steps, st.Desc, src.Tape(), sched.Tape()}, []any{sigs, c.Kind})
	out.End(id, sigs)
	out.Count("evaluations", 1)
	out.Count("kind."+c.Kind, 1)
	out.Count("operations", int64(st.Ops))
	out.Count("sim_steps", int64(st.Steps))
	for k, v := range st.Probes {
		out.Count("probe."+k, int64(v))
	}
	for _, h := range st.TraceHashes {
		out.SetAdd("distinct_interleavings", h)
	}
	if st.NonTrivial {
		b, _ := json.Marshal(c)
		out.SetAdd("distinct_nontrivial", wproto.Hash(b))
	}
	if id%97 < 2 && st.Desc != "" {
		out.Sample(map[string]any{"case": id, "kind": c.Kind, "what": st.Desc}, 12)
	}
	out.Remember(c)
	simsched.FlushTotals(out.Count, func(name string, n int64) {
		if n > out.Counters[name] {
			out.Counters[name] = n
		}
	})
	out.Tick(256)
}

func TestWorker(t *testing.T) {
	job, err := wproto.LoadJob()
	if err != nil {
		t.Skip("not run by the driver: ", err)
	}
	out, err := wproto.OpenOut()
	if err != nil {
		t.Fatal(err)
	}
	out.StuckFlag = &simsched.Stuck
	out.StallProbe = simsched.StallProbe
	out.SimActive = simsched.Active
	out.Watch(45 * time.Second)
	kinds := job.KindList(Kinds)
	mk := func(i int) (*Case, *choice.Source, *choice.Source) {
		c := &Case{Property: "C09", Engine: "simhist", Kind: kinds[i%len(kinds)]}
		return c, choice.New(job.Seed, fmt.Sprint("c09-ops-", i)), choice.New(job.Seed, fmt.Sprint("c09-sched-", i))
	}
	switch job.Mode {
	case "replay":
		for i, raw := range job.Cases {
			if i < job.Start {
				continue
			}
			var c Case
			if err := json.Unmarshal(raw, &c); err != nil {
				t.Fatal(err)
			}
			if c.Tape == nil && c.Sched == nil && c.Seed != 0 {
				runOne(t, &c, choice.New(c.Seed, fmt.Sprint("c09-ops-", c.Index)), choice.New(c.Seed, fmt.Sprint("c09-sched-", c.Index)), out, i)
				continue
			}
			runOne(t, &c, choice.Replay(c.Tape), choice.ReplayAux(c.Sched, c.Pol), out, i)
		}
		out.Finish("done", len(job.Cases))
	case "dump":
		var want int
		fmt.Sscan(job.Params["case"], &want)
		c, _, _ := mk(want)
		c.Seed, c.Index = job.Seed, want
		out.Emit(map[string]any{"t": "dump", "replay": c})
	case "explore":
		deadline := time.Now().Add(time.Duration(job.BudgetS * float64(time.Second)))
		for i := job.Start; (job.MaxCases == 0 || i < job.MaxCases) && time.Now().Before(deadline); i++ {
			if i%job.NShards != job.Shard {
				continue
			}
			c, s, sc := mk(i)
			runOne(t, c, s, sc, out, i)
			if out.ShouldRecycle() {
				out.Count("recycled_workers", 1)
				out.Finish("restart", i+1)
				return
			}
		}
		out.Finish("done", -1)
	}
}
