//go:build verif

package c09

import (
	"fmt"
	"math"
	"sort"
	"strings"
	"sync"

	"github.com/unixpickle/model3d/model2d"
	"github.com/unixpickle/model3d/model3d"
	"github.com/unixpickle/model3d/toolbox3d"
	"verif/harness/choice"
	"verif/harness/simsched"
	"verif/harness/wproto"
)

type tri = model3d.Triangle

func norm(c model3d.Coord3D) model3d.Coord3D { return model3d.XYZ(c.X+0, c.Y+0, c.Z+0) }

func ptrSet(ts []*tri) (map[*tri]int, string) {
	m := map[*tri]int{}
	dup := ""
	for _, t := range ts {
		m[t]++
		if m[t] > 1 {
			dup = "a face was returned twice"
		}
	}
	return m, dup
}

func samePtrSet(a, b []*tri) bool {
	ma, d1 := ptrSet(a)
	mb, d2 := ptrSet(b)
	if d1 != "" || d2 != "" || len(ma) != len(mb) {
		return false
	}
	for t := range ma {
		if mb[t] == 0 {
			return false
		}
	}
	return true
}

func coordSet(cs []model3d.Coord3D) []string {
	var out []string
	for _, c := range cs {
		c = norm(c)
		out = append(out, fmt.Sprintf("%016x%016x%016x", math.Float64bits(c.X), math.Float64bits(c.Y), math.Float64bits(c.Z)))
	}
	sort.Strings(out)
	return out
}

func faceValues(ts []*tri) []string {
	var out []string
	for _, t := range ts {
		out = append(out, fmt.Sprint(coordSetOrdered(t)))
	}
	sort.Strings(out)
	return out
}

func coordSetOrdered(t *tri) [3]string {
	var r [3]string
	for i, c := range t {
		c = norm(c)
		r[i] = fmt.Sprintf("%016x%016x%016x", math.Float64bits(c.X), math.Float64bits(c.Y), math.Float64bits(c.Z))
	}
	return r
}

// hist3 is one history: the real mesh and the plain list of its current faces.
type hist3 struct {
	startFail string // "sig|message" of a violation found while the starting mesh was made
	real    *model3d.Mesh
	list    []*tri // insertion order, pointer identity
	removed []*tri
	pool    []model3d.Coord3D
	trace   []string
	st      *Stats
}

func (h *hist3) has(t *tri) bool {
	for _, x := range h.list {
		if x == t {
			return true
		}
	}
	return false
}

func (h *hist3) log(f string, a ...any) { h.trace = append(h.trace, fmt.Sprintf(f, a...)) }

func (h *hist3) fail(kind, msg string) []Finding {
	tr := h.trace
	if len(tr) > 40 {
		tr = tr[len(tr)-40:]
	}
	return []Finding{{"mesh3|" + kind, fmt.Sprintf("after %d operations: %s; history (last %d): %v", len(h.trace), msg, len(tr), tr)}}
}

// checkFree compares everything observable without touching the vertex index.
func (h *hist3) checkFree() []Finding {
	if h.real.NumTriangles() != len(h.list) {
		return h.fail("count", fmt.Sprintf("NumTriangles() = %d, the list of current faces has %d", h.real.NumTriangles(), len(h.list)))
	}
	var it []*tri
	h.real.Iterate(func(t *tri) { it = append(it, t) })
	if !samePtrSet(it, h.list) {
		return h.fail("iterate", fmt.Sprintf("Iterate visited %d faces; current faces: %d", len(it), len(h.list)))
	}
	if !samePtrSet(h.real.TriangleSlice(), h.list) {
		return h.fail("triangleslice", "TriangleSlice differs from the current faces")
	}
	for _, t := range h.list {
		if !h.real.Contains(t) {
			return h.fail("contains", "Contains is false for a current face")
		}
	}
	for _, t := range h.removed {
		if !h.has(t) && h.real.Contains(t) {
			return h.fail("contains", "Contains is true for a removed face")
		}
	}
	if len(h.list) > 0 {
		lo, hi := h.list[0][0], h.list[0][0]
		for _, t := range h.list {
			for _, c := range t {
				lo, hi = lo.Min(c), hi.Max(c)
			}
		}
		if norm(h.real.Min()) != norm(lo) || norm(h.real.Max()) != norm(hi) {
			return h.fail("bounds", fmt.Sprintf("Min/Max = %v %v, the current faces span %v %v", h.real.Min(), h.real.Max(), lo, hi))
		}
	}
	return nil
}

// checkIndexed compares every index-backed query with a mesh freshly built
// from the list of current faces, and with the list itself.
func (h *hist3) checkIndexed() []Finding {
	fresh := model3d.NewMeshTriangles(h.list)
	// vertices
	var vs []model3d.Coord3D
	seen := map[model3d.Coord3D]bool{}
	for _, t := range h.list {
		for _, c := range t {
			if !seen[c] {
				seen[c] = true
				vs = append(vs, c)
			}
		}
	}
	if fmt.Sprint(coordSet(h.real.VertexSlice())) != fmt.Sprint(coordSet(vs)) {
		return h.fail("vertexslice", fmt.Sprintf("VertexSlice has %d vertices, the current faces have %d distinct ones", len(h.real.VertexSlice()), len(vs)))
	}
	var iv []model3d.Coord3D
	h.real.IterateVertices(func(c model3d.Coord3D) { iv = append(iv, c) })
	if fmt.Sprint(coordSet(iv)) != fmt.Sprint(coordSet(vs)) {
		return h.fail("iteratevertices", "IterateVertices differs from the vertices of the current faces")
	}
	probe := append([]model3d.Coord3D{}, vs...)
	for _, c := range h.pool {
		if !seen[c] {
			probe = append(probe, c)
		}
	}
	for _, v := range probe {
		var want []*tri
		for _, t := range h.list {
			if t[0] == v || t[1] == v || t[2] == v {
				want = append(want, t)
			}
		}
		got := h.real.Find(v)
		if !samePtrSet(got, want) {
			return h.fail("find", fmt.Sprintf("Find(%v) returned %d faces, %d current faces touch that vertex", v, len(got), len(want)))
		}
		if !samePtrSet(fresh.Find(v), want) {
			return h.fail("find-fresh", fmt.Sprintf("a freshly built mesh answers Find(%v) wrongly", v))
		}
	}
	for i := 0; i+1 < len(vs) && i < 12; i++ {
		a, b := vs[i], vs[(i*7+1)%len(vs)]
		if !samePtrSet(h.real.Find(a, b), fresh.Find(a, b)) {
			return h.fail("find2", fmt.Sprintf("Find(%v,%v) differs from a freshly built mesh", a, b))
		}
	}
	// Find with any number of points, repeated or not, against the face list:
	// the faces that contain every passed point.
	for i, t := range h.list {
		if i > 12 {
			break
		}
		far := h.pool[(i*5+3)%len(h.pool)]
		for qi, q := range [][]model3d.Coord3D{{t[0], t[1]}, {t[2], t[0], t[1]}, {t[0], t[1], t[2], t[0]},
			{t[1], t[0], t[1], t[0]}, {t[2], t[2]}, {t[0], t[1], t[2], t[2], t[1], t[0]}, {t[0], far}, {t[0], t[1], t[2], far}} {
			var want []*tri
			for _, u := range h.list {
				all := true
				for _, p := range q {
					if p != u[0] && p != u[1] && p != u[2] {
						all = false
					}
				}
				if all {
					want = append(want, u)
				}
			}
			if got := h.real.Find(q...); !samePtrSet(got, want) {
				return h.fail("findn", fmt.Sprintf("Find with %d points (query shape %d) returned %d faces, %d current faces contain all of them", len(q), qi, len(got), len(want)))
			}
		}
	}
	for i, t := range h.list {
		if i > 24 {
			break
		}
		if !samePtrSet(h.real.Neighbors(t), fresh.Neighbors(t)) {
			return h.fail("neighbors", fmt.Sprintf("Neighbors(face %d) = %d faces, a freshly built mesh gives %d", i, len(h.real.Neighbors(t)), len(fresh.Neighbors(t))))
		}
	}
	an, fn := h.real.AllVertexNeighbors(), fresh.AllVertexNeighbors()
	for _, v := range vs {
		if fmt.Sprint(coordSet(an.Value(v))) != fmt.Sprint(coordSet(fn.Value(v))) {
			return h.fail("vertexneighbors", fmt.Sprintf("AllVertexNeighbors()[%v] differs from a freshly built mesh", v))
		}
	}
	// (SingularVertices is not compared: on meshes with degenerate faces two
	// freshly built meshes already disagree with each other - its edge-sharing
	// walk depends on Go map order - so it says nothing about the history.)
	if h.real.NeedsRepair() != fresh.NeedsRepair() {
		return h.fail("diagnostics", "NeedsRepair differs from a freshly built mesh")
	}
	return nil
}

func (h *hist3) newFace(src *choice.Source) *tri {
	t := &tri{}
	kind := src.Intn(8)
	for j := 0; j < 3; j++ {
		t[j] = h.pool[src.Intn(len(h.pool))]
	}
	switch kind {
	case 0: // degenerate: repeated vertex
		t[1] = t[0]
	case 1: // fully degenerate
		t[1], t[2] = t[0], t[0]
	case 2: // value-equal copy of a current face, distinct pointer
		if len(h.list) > 0 {
			*t = *h.list[src.Intn(len(h.list))]
		}
	}
	return t
}

// meshHash3 is an order-free digest of the face values of m.
func meshHash3(m *model3d.Mesh) string {
	var l []string
	m.Iterate(func(t *model3d.Triangle) { l = append(l, fmt.Sprint(*t)) })
	sort.Strings(l)
	return wproto.Hash([]byte(strings.Join(l, ";")))
}

// startMesh3 picks how the history begins.
func startMesh3(src *choice.Source, h *hist3) {
	kind := src.Intn(13) // (recorded tapes hold reduced values, so the range may grow)
	switch kind {
	case 0:
		h.real = model3d.NewMesh()
		h.log("NewMesh")
	case 1:
		var fs []*tri
		n := src.Intn(12)
		for i := 0; i < n; i++ {
			fs = append(fs, h.newFace(src))
		}
		h.real = model3d.NewMeshTriangles(fs)
		h.log("NewMeshTriangles(%d)", n)
	case 2: // library in-place editor: marching cubes vertex search
		s := &model3d.Sphere{Center: model3d.XYZ(0.01, 0.02, 0.03), Radius: 0.4 + 0.2*src.Float()}
		h.real = model3d.MarchingCubesSearch(s, 0.3, 1+src.Intn(3))
		h.log("MarchingCubesSearch")
	case 3: // in-place editor: FlattenBase
		m := model3d.NewMeshIcosphere(model3d.XYZ(0, 0, 0), 1, 1)
		// cut the bottom so that faces hang over the base plane
		m = m.MapCoords(func(c model3d.Coord3D) model3d.Coord3D {
			if c.Z < -0.4 {
				c.Z = -0.4
			}
			return c
		})
		h.real = m.FlattenBase(0.2 + src.Float())
		h.log("FlattenBase")
	case 4: // in-place editor: EliminateEdges / eliminateSegment
		m := model3d.NewMeshIcosphere(model3d.XYZ(0, 0, 0), 1, 1+src.Intn(2))
		k := 0
		lim := 1 + src.Intn(12)
		// EliminateEdges draws its segments from a Go map, so its output is not a
		// function of its input.  The simulator cannot own that order; a replay
		// therefore repeats the call until the output recorded with the finding
		// reappears (each call is an independent draw of the map order).
		h.st.MapDep = "EliminateEdges picks segments in the iteration order of a Go map"
		for attempt := 0; ; attempt++ {
			k = 0
			h.real = m.EliminateEdges(func(tmp *model3d.Mesh, seg model3d.Segment) bool { k++; return k%3 == 0 && k < 3*lim })
			h.st.StartHash = meshHash3(h.real)
			if h.st.WantStart == "" || h.st.StartHash == h.st.WantStart || attempt >= 400 {
				break
			}
		}
		h.log("EliminateEdges")
	case 5: // dual contouring with Repair (mapInPlace)
		s := model3d.JoinedSolid{&model3d.Sphere{Center: model3d.XYZ(0, 0, 0), Radius: 0.5}, &model3d.Sphere{Center: model3d.XYZ(0.72, 0, 0), Radius: 0.3}}
		h.real = model3d.DualContour(s, 0.21+0.05*src.Float(), true, src.Chance(1, 2))
		h.log("DualContour(repair)")
	case 6:
		m := model3d.NewMeshRect(model3d.XYZ(0, 0, 0), model3d.XYZ(1, 2, 0.5))
		h.real = m.EliminateCoplanar(1e-8)
		h.log("EliminateCoplanar")
	case 7: // toolbox3d's singularity fixer: Remove, rewrite a vertex in place, Add - on an indexed mesh
		rs := toolbox3d.NewRectSet()
		rs.Add(&model3d.Rect{MinVal: model3d.XYZ(0, 0, 0), MaxVal: model3d.XYZ(1, 1, 1)})
		switch src.Intn(3) {
		case 0: // the two boxes share an edge
			rs.Add(&model3d.Rect{MinVal: model3d.XYZ(1, 1, 0), MaxVal: model3d.XYZ(2, 2, 1)})
		case 1: // ... a corner
			rs.Add(&model3d.Rect{MinVal: model3d.XYZ(1, 1, 1), MaxVal: model3d.XYZ(2, 1.5, 2)})
		default: // ... an edge and, with a third box, a corner
			rs.Add(&model3d.Rect{MinVal: model3d.XYZ(1, 1, 0), MaxVal: model3d.XYZ(2, 2, 0.5)})
			rs.Add(&model3d.Rect{MinVal: model3d.XYZ(-1, -1, 1), MaxVal: model3d.XYZ(0, 0, 2)})
		}
		h.real = rs.Mesh()
		h.log("RectSet.Mesh")
	case 8: // height-map mesh: separateSingularVertices edits the indexed mesh in place
		hm := toolbox3d.NewHeightMap(model2d.XY(0, 0), model2d.XY(1, 1), 4+src.Intn(4))
		n := 1 + src.Intn(3)
		for i := 0; i < n; i++ {
			hm.AddSphere(model2d.XY(src.Float(), src.Float()), 0.15+0.25*src.Float())
		}
		if src.Chance(1, 2) {
			h.real = hm.Mesh()
		} else {
			h.real = hm.MeshBidir()
		}
		h.log("HeightMap.Mesh")
	case 9: // every entry point of the marching-cubes vertex search, at its edge cases
		var solid model3d.Solid = &model3d.Sphere{Center: model3d.XYZ(0.01, 0.02, 0.03), Radius: 0.4 + 0.2*src.Float()}
		delta := 0.3
		if src.Chance(1, 2) {
			// faces exactly on lattice planes: searched vertices can collapse onto corners
			solid = &model3d.Rect{MinVal: model3d.XYZ(1, 1, 1), MaxVal: model3d.XYZ(2, 2, 2+float64(src.Intn(2)))}
			delta = 1
		}
		iters := []int{0, 1, 2, 5, 53, 60, 80}[src.Intn(7)]
		switch src.Intn(5) {
		case 0:
			h.real, _ = model3d.MarchingCubesInterior(solid, delta, iters)
			h.log("MarchingCubesInterior(iters=%d)", iters)
		case 1:
			h.real = model3d.MarchingCubesSearch(solid, delta, iters)
			h.log("MarchingCubesSearch(iters=%d)", iters)
		case 2:
			h.real = model3d.MarchingCubesSearchFilter(solid, func(*model3d.Rect) bool { return true }, delta, iters)
			h.log("MarchingCubesSearchFilter(iters=%d)", iters)
		case 3:
			h.real = model3d.MarchingCubesC2F(solid, 2*delta, delta, 0, iters)
			h.log("MarchingCubesC2F(iters=%d)", iters)
		default:
			h.real = model3d.MarchingCubesConj(solid, delta, iters, &model3d.Translate{Offset: model3d.XYZ(0.1, 0, 0)})
			h.log("MarchingCubesConj(iters=%d)", iters)
		}
	}
	if kind == 12 {
		// an edge so short that its midpoint rounds onto one of its ends (neighbouring
		// floats, or 0 and the smallest subnormal), collapsed by EliminateEdges
		// an octahedron whose equator has one edge a-b of (next to) no length:
		// opposite pairs (a,x), (b,y), (p,q)
		perm := [][3]int{{0, 1, 2}, {1, 2, 0}, {2, 0, 1}}[src.Intn(3)]
		mk := func(x, y, z float64) model3d.Coord3D {
			v := [3]float64{x, y, z}
			return model3d.XYZ(v[perm[0]], v[perm[1]], v[perm[2]])
		}
		var a, b model3d.Coord3D
		switch src.Intn(4) {
		case 0:
			a, b = mk(1, 0.25, 0), mk(math.Nextafter(1, 2), 0.25, 0)
		case 1:
			a, b = mk(1, 0.25, 0), mk(math.Nextafter(1, 0), 0.25, 0)
		case 2:
			a, b = mk(1, 0.25, 0), mk(1, 0.25, math.SmallestNonzeroFloat64)
		default:
			a, b = mk(1, 0.25, 0), mk(1, math.Nextafter(0.25, 1), -math.SmallestNonzeroFloat64)
		}
		x, y, pp, q := mk(-1, 0.5, 0), mk(-1, -0.5, 0), mk(0, 0, 1), mk(0, 0, -1)
		m := model3d.NewMesh()
		for _, c1 := range []model3d.Coord3D{a, x} {
			for _, c2 := range []model3d.Coord3D{b, y} {
				for _, c3 := range []model3d.Coord3D{pp, q} {
					m.Add(&model3d.Triangle{c3, c1, c2})
				}
			}
		}
		if src.Chance(1, 2) {
			m.VertexSlice()
		}
		h.st.MapDep = "EliminateEdges picks segments in the iteration order of a Go map"
		for attempt := 0; ; attempt++ {
			h.real = m.EliminateEdges(func(tmp *model3d.Mesh, seg model3d.Segment) bool { return seg[0].Dist(seg[1]) < 1e-9 })
			h.st.StartHash = meshHash3(h.real)
			if h.st.WantStart == "" || h.st.StartHash == h.st.WantStart || attempt >= 400 {
				break
			}
		}
		if h.real.NumTriangles() < m.NumTriangles() {
			h.st.probe("tiny edge (midpoint == endpoint) collapsed by EliminateEdges")
		}
		h.log("EliminateEdges(edge between neighbouring floats)")
	}
	if kind >= 10 && kind < 12 {
		// bystander: a library operation that returns a new mesh is applied to a closed
		// surface (queried before or not, copied before or not) and its result thrown
		// away; the source and the earlier copy must not notice - neither their face
		// values nor, as the history goes on, their index
		var s0 *model3d.Mesh
		switch src.Intn(3) {
		case 0:
			s0 = model3d.NewMeshRect(model3d.XYZ(0, 0, 0), model3d.XYZ(1, 2, 0.5))
		case 1:
			s0 = model3d.NewMeshIcosphere(model3d.XYZ(0, 0, 0), 1, 1+src.Intn(2))
		default:
			s0 = model3d.NewMeshTorus(model3d.XYZ(0, 0, 0), model3d.Z(1), 0.2, 0.6, 5, 6+src.Intn(3))
		}
		if src.Chance(1, 2) {
			s0.VertexSlice()
		}
		var cp *model3d.Mesh
		if src.Chance(1, 2) {
			cp = s0.Copy()
			if src.Chance(1, 2) {
				cp.VertexSlice()
			}
		}
		before := meshHash3(s0)
		opName := ""
		switch src.Intn(9) {
		case 0:
			s0.EliminateCoplanar(1e-8)
			opName = "EliminateCoplanar"
		case 1:
			k := 0
			s0.EliminateEdges(func(tmp *model3d.Mesh, seg model3d.Segment) bool { k++; return k%4 == 0 && k < 40 })
			opName = "EliminateEdges"
		case 2:
			s0.FlattenBase(0.3)
			opName = "FlattenBase"
		case 3:
			s0.Repair(1e-8)
			opName = "Repair"
		case 4:
			s0.FlipDelaunay()
			opName = "FlipDelaunay"
		case 5:
			s0.Blur(0.5)
			opName = "Blur"
		case 6:
			s0.SmoothAreas(0.05, 1+src.Intn(3))
			opName = "SmoothAreas"
		case 7:
			model3d.DecimateSimple(s0, 0.05)
			opName = "DecimateSimple"
		default:
			s0.InvertNormals()
			opName = "InvertNormals"
		}
		h.log("bystander of %s", opName)
		if meshHash3(s0) != before {
			h.st.StartHash = "!"
			h.real = s0
			h.list = sortedFaces(h.real.TriangleSlice())
			h.startFail = "bystander-values|" + opName + " changed the faces of the mesh it was called on (it returns a new mesh)"
			return
		}
		if cp != nil && meshHash3(cp) != before {
			h.real = cp
			h.list = sortedFaces(h.real.TriangleSlice())
			h.startFail = "bystander-values|" + opName + " changed the faces of an earlier Copy of the mesh it was called on"
			return
		}
		h.real = s0
		if cp != nil && src.Chance(1, 2) {
			h.real = cp
		}
	}
	h.list = sortedFaces(h.real.TriangleSlice())
	if kind >= 2 {
		// continue the history with vertices of that mesh in the pool
		seen := map[model3d.Coord3D]bool{}
		for _, t := range h.list {
			for _, c := range t {
				if !seen[c] && len(h.pool) < 40 {
					seen[c] = true
					h.pool = append(h.pool, c)
				}
			}
		}
	}
}

func runMesh3(t testingT, src, sched *choice.Source, st *Stats) (fs []Finding) {
	h := &hist3{st: st, pool: pool3(src)}
	for len(h.pool) < 4 {
		h.pool = append(h.pool, model3d.XYZ(float64(len(h.pool)), 1, 2))
	}
	startMesh3(src, h)
	if h.startFail != "" {
		p := strings.SplitN(h.startFail, "|", 2)
		return h.fail(p[0], p[1])
	}
	if f := h.checkFree(); f != nil {
		return f
	}
	n := 3 + src.Intn(40)
	indexed := h.real.VerifHasVertexIndex()
	if indexed {
		st.probe("history starts with an index left by an in-place editor")
	}
	for step := 0; step < n; step++ {
		was := h.real.VerifHasVertexIndex()
		op := src.Intn(22) // (recorded tapes hold reduced values, so the range may grow)
		switch op {
		case 0, 1, 2:
			t := h.newFace(src)
			h.real.Add(t)
			h.list = append(h.list, t)
			h.log("Add(new)")
		case 3:
			if len(h.list) > 0 {
				t := h.list[src.Intn(len(h.list))]
				h.real.Add(t) // duplicate pointer: must be a no-op
				h.log("Add(duplicate pointer)")
			}
		case 4, 5:
			if len(h.list) > 0 {
				i := src.Intn(len(h.list))
				t := h.list[i]
				h.real.Remove(t)
				h.list = append(h.list[:i:i], h.list[i+1:]...)
				h.removed = append(h.removed, t)
				h.log("Remove(present)")
			}
		case 6:
			if len(h.removed) > 0 && src.Chance(1, 2) {
				t := h.removed[src.Intn(len(h.removed))]
				if !h.has(t) {
					h.real.Remove(t)
					h.log("Remove(already removed)")
				}
			} else {
				h.real.Remove(h.newFace(src))
				h.log("Remove(absent)")
			}
		case 7:
			if len(h.removed) > 0 {
				t := h.removed[src.Intn(len(h.removed))]
				if !h.has(t) {
					h.real.Add(t)
					h.list = append(h.list, t)
					h.log("Add(previously removed)")
				}
			}
		case 8:
			other := model3d.NewMesh()
			k := src.Intn(4)
			var add []*tri
			for i := 0; i < k; i++ {
				add = append(add, h.newFace(src))
			}
			if len(h.list) > 0 && src.Chance(1, 2) {
				add = append(add, h.list[src.Intn(len(h.list))]) // shared pointer
			}
			for _, t := range add {
				other.Add(t)
			}
			if k%2 == 1 {
				// the merged-in mesh has been queried too: both indexes exist
				// (decided from a value already drawn: recorded tapes keep their meaning)
				other.VertexSlice()
				h.st.probe("addmesh: the other mesh had its index built")
			}
			h.real.AddMesh(other)
			for _, t := range add {
				if !h.has(t) {
					h.list = append(h.list, t)
				}
			}
			h.log("AddMesh(%d)", len(add))
		case 9: // the lazily built index comes into existence here
			if len(h.pool) > 0 {
				h.real.Find(h.pool[src.Intn(len(h.pool))])
				h.log("Find -> index built")
			}
		case 10:
			c := h.real.Copy()
			if !samePtrSet(c.TriangleSlice(), h.list) {
				return h.fail("copy", "Copy does not hold exactly the current faces")
			}
			if src.Chance(1, 2) {
				h.real = c
				h.log("Copy (continue on the copy)")
			} else {
				// mutate the copy: the original must not notice
				c.Add(h.newFace(src))
				if len(h.list) > 0 {
					c.Remove(h.list[0])
				}
				h.log("Copy (mutate the copy)")
			}
		case 11:
			d := h.real.DeepCopy()
			if fmt.Sprint(faceValues(d.TriangleSlice())) != fmt.Sprint(faceValues(h.list)) {
				return h.fail("deepcopy", "DeepCopy does not hold the values of the current faces")
			}
			for _, t := range d.TriangleSlice() {
				if h.has(t) {
					return h.fail("deepcopy", "DeepCopy shares a face pointer with the original")
				}
			}
			if src.Chance(1, 2) {
				h.real, h.list, h.removed = d, sortedFaces(d.TriangleSlice()), nil
				h.log("DeepCopy (continue on the copy)")
			}
		case 12:
			if f := h.mapCoords(src); f != nil {
				return f
			}
		case 13:
			if f := h.invert(); f != nil {
				return f
			}
		case 14:
			if f := h.burst(t, src, sched); f != nil {
				return f
			}
		case 15:
			if f := h.checkIndexed(); f != nil {
				return f
			}
			h.log("full query check")
		case 16: // AddQuad: two faces over four pool vertices
			var q [4]model3d.Coord3D
			for i := range q {
				q[i] = h.pool[src.Intn(len(h.pool))]
			}
			before := map[*tri]bool{}
			h.real.Iterate(func(t *tri) { before[t] = true })
			ret := h.real.AddQuad(q[0], q[1], q[2], q[3])
			var added []*tri
			h.real.Iterate(func(t *tri) {
				if !before[t] {
					added = append(added, t)
				}
			})
			if len(added) != 2 {
				return h.fail("addquad", fmt.Sprintf("AddQuad added %d faces", len(added)))
			}
			// either diagonal may split the quad; orientation p1->p2->p3->p4 is kept
			rot := func(t tri) string {
				best := ""
				for r := 0; r < 3; r++ {
					if k := fmt.Sprint(faceValues([]*tri{{t[r], t[(r+1)%3], t[(r+2)%3]}})); best == "" || k < best {
						best = k
					}
				}
				return best
			}
			pair := func(a, b tri) string {
				x, y := rot(a), rot(b)
				if y < x {
					x, y = y, x
				}
				return x + y
			}
			got := pair(*added[0], *added[1])
			if got != pair(tri{q[0], q[1], q[3]}, tri{q[1], q[2], q[3]}) && got != pair(tri{q[0], q[1], q[2]}, tri{q[0], q[2], q[3]}) {
				return h.fail("addquad", fmt.Sprintf("AddQuad(%v) added faces that are not the two halves of that quad", q))
			}
			if !(ret[0] == added[0] && ret[1] == added[1] || ret[0] == added[1] && ret[1] == added[0]) {
				return h.fail("addquad", "AddQuad did not return the two faces it added")
			}
			h.list = append(h.list, sortedFaces(added)...)
			h.log("AddQuad")
		case 17: // IterateSorted: every current face exactly once, in the order of the comparison
			var seen []*tri
			less := func(a, b *tri) bool { return fmt.Sprint(*a) < fmt.Sprint(*b) }
			h.real.IterateSorted(func(t *tri) { seen = append(seen, t) }, less)
			if !samePtrSet(seen, h.list) {
				return h.fail("iteratesorted", "IterateSorted did not visit exactly the current faces")
			}
			for i := 1; i < len(seen); i++ {
				if less(seen[i], seen[i-1]) {
					return h.fail("iteratesorted", fmt.Sprintf("IterateSorted visited face %d before a smaller one", i-1))
				}
			}
			h.log("IterateSorted")
		case 21: // a read-only pass nested in another pass over the same mesh
			if len(h.list) > 0 {
				outer, inner := src.Intn(3), src.Intn(4)
				if bad := nestedIteration(h.real, h.list, outer, inner, src.Intn(len(h.list))); bad != "" {
					return h.fail("nested-iteration", bad)
				}
				h.log("nested iteration (outer %d, inner %d)", outer, inner)
			}
		case 18: // Center and Transform: derived meshes with the mapped faces
			if len(h.list) > 0 {
				c := h.real.Center()
				lo, hi := h.real.Min(), h.real.Max()
				off := lo.Mid(hi).Scale(-1)
				var want []*tri
				for _, t := range h.list {
					want = append(want, &tri{t[0].Add(off), t[1].Add(off), t[2].Add(off)})
				}
				if fmt.Sprint(faceValues(c.TriangleSlice())) != fmt.Sprint(faceValues(want)) {
					return h.fail("center", "Center() does not hold the current faces translated by minus the midpoint of the bounds")
				}
				tr := h.real.Transform(&model3d.Translate{Offset: model3d.XYZ(1, 2, 4)})
				want = want[:0]
				for _, t := range h.list {
					o := model3d.XYZ(1, 2, 4)
					want = append(want, &tri{t[0].Add(o), t[1].Add(o), t[2].Add(o)})
				}
				if fmt.Sprint(faceValues(tr.TriangleSlice())) != fmt.Sprint(faceValues(want)) {
					return h.fail("transform", "Transform(Translate) does not hold the translated current faces")
				}
				h.log("Center+Transform")
			}
		case 19, 20:
			// iteration whose callback edits the mesh ("if f adds or removes triangles /
			// vertices, they will not be visited"): at its k-th call the callback removes
			// one face and adds one with as many new vertices as the removed face had to
			// itself.  Whatever the visiting order, everything visited must be current at
			// that moment, nothing added is visited, and what stayed is visited once.
			if len(h.list) < 2 {
				break
			}
			k := src.Intn(len(h.list))
			rm := h.list[src.Intn(len(h.list))]
			uses := map[model3d.Coord3D]int{}
			for _, t := range h.list {
				seen := map[model3d.Coord3D]bool{}
				for _, c := range t {
					if !seen[c] {
						seen[c] = true
						uses[c]++
					}
				}
			}
			var shared []model3d.Coord3D
			private := 0
			seenR := map[model3d.Coord3D]bool{}
			for _, c := range rm {
				if seenR[c] {
					continue
				}
				seenR[c] = true
				if uses[c] == 1 {
					private++
				} else {
					shared = append(shared, c)
				}
			}
			add := &tri{}
			for j := 0; j < 3; j++ {
				if j < private {
					add[j] = model3d.XYZ(100+float64(step)+0.25*float64(j), 50+float64(len(h.list)), float64(j)) // brand-new vertex
				} else if len(shared) > 0 {
					add[j] = shared[(j-private)%len(shared)]
				} else {
					add[j] = add[0]
				}
			}
			current := map[*tri]bool{}
			for _, t := range h.list {
				current[t] = true
			}
			curVerts := func() map[model3d.Coord3D]bool {
				m := map[model3d.Coord3D]bool{}
				for t := range current {
					for _, c := range t {
						m[c] = true
					}
				}
				return m
			}
			calls, bad := 0, ""
			edit := func() {
				if calls == k {
					h.real.Remove(rm)
					delete(current, rm)
					h.real.Add(add)
					current[add] = true
				}
				calls++
			}
			if op == 19 {
				visited := map[*tri]int{}
				h.real.Iterate(func(t *tri) {
					if !current[t] && bad == "" {
						bad = "Iterate visited a face that its own callback had already removed"
					}
					if t == add && bad == "" {
						bad = "Iterate visited a face that its own callback had added"
					}
					visited[t]++
					edit()
				})
				for _, t := range h.list {
					if t != rm && visited[t] != 1 && bad == "" {
						bad = fmt.Sprintf("Iterate with an editing callback visited a face that stayed in the mesh %d times", visited[t])
					}
				}
				h.log("Iterate(editing callback)")
			} else {
				before := curVerts()
				visited := map[model3d.Coord3D]int{}
				h.real.IterateVertices(func(c model3d.Coord3D) {
					if !curVerts()[c] && bad == "" {
						bad = fmt.Sprintf("IterateVertices visited %v, which no current face uses any more (its callback removed it)", c)
					}
					if !before[c] && bad == "" {
						bad = fmt.Sprintf("IterateVertices visited %v, which its own callback had added", c)
					}
					visited[c]++
					edit()
				})
				after := curVerts()
				for c := range before {
					if after[c] && visited[c] != 1 && bad == "" {
						bad = fmt.Sprintf("IterateVertices with an editing callback visited vertex %v, which stayed in the mesh, %d times", c, visited[c])
					}
				}
				h.log("IterateVertices(editing callback)")
			}
			if calls > k {
				for i, t := range h.list {
					if t == rm {
						h.list = append(h.list[:i:i], h.list[i+1:]...)
						break
					}
				}
				h.removed = append(h.removed, rm)
				h.list = append(h.list, add)
			}
			if bad != "" {
				return h.fail("iterate-editing", bad)
			}
		}
		now := h.real.VerifHasVertexIndex()
		switch {
		case !was && now:
			st.probe("index: absent -> built")
		case was && now && op <= 8:
			st.probe("index: built -> patched by Add/Remove")
		}
		if f := h.checkFree(); f != nil {
			return f
		}
		if now {
			// the index exists, so querying it does not change the history
			if f := h.checkIndexed(); f != nil {
				return f
			}
		}
		st.Ops++
	}
	if f := h.checkIndexed(); f != nil {
		return f
	}
	st.NonTrivial = true
	st.Desc = fmt.Sprintf("mesh3 history of %d operations, %d faces at the end: %v", len(h.trace), len(h.list), firstN(h.trace, 12))
	return nil
}

// sortedFaces orders faces by value: TriangleSlice follows Go map order, and a
// history must not depend on it if it is to replay exactly.
// nestedIteration: a pass over the mesh whose callback, at its k-th call, makes
// another full read-only pass over the same mesh (plain, sorted by a comparison
// that reverses the outer order, or over the vertices).  Nothing is edited, so
// both passes must visit exactly the current faces (vertices), each once, and a
// sorted pass must come in the order of its comparison.
func nestedIteration(m *model3d.Mesh, list []*tri, outer, inner, k int) string {
	key := func(t *tri) [9]float64 {
		return [9]float64{t[0].X, t[0].Y, t[0].Z, t[1].X, t[1].Y, t[1].Z, t[2].X, t[2].Y, t[2].Z}
	}
	lessKey := func(a, b *tri) bool {
		ka, kb := key(a), key(b)
		for i := range ka {
			if ka[i] != kb[i] {
				return ka[i] < kb[i]
			}
		}
		return false
	}
	up := func(a, b *tri) bool { return lessKey(a, b) }
	down := func(a, b *tri) bool { return lessKey(b, a) }
	want := map[*tri]bool{}
	wantV := map[model3d.Coord3D]bool{}
	for _, t := range list {
		want[t] = true
		wantV[t[0]], wantV[t[1]], wantV[t[2]] = true, true, true
	}
	bad := ""
	checkFaces := func(who string, seen []*tri, cmp func(a, b *tri) bool) {
		if bad != "" {
			return
		}
		cnt := map[*tri]int{}
		for _, t := range seen {
			cnt[t]++
		}
		missed, twice, foreign := 0, 0, 0
		for t := range want {
			switch {
			case cnt[t] == 0:
				missed++
			case cnt[t] > 1:
				twice++
			}
		}
		for t := range cnt {
			if !want[t] {
				foreign++
			}
		}
		if missed+twice+foreign > 0 {
			bad = fmt.Sprintf("%s pass over an unchanged mesh of %d faces: %d faces never visited, %d visited more than once, %d visited that are not in the mesh", who, len(list), missed, twice, foreign)
			return
		}
		if cmp != nil {
			for i := 1; i < len(seen); i++ {
				if cmp(seen[i], seen[i-1]) {
					bad = fmt.Sprintf("%s sorted pass: position %d holds a face that sorts before its predecessor", who, i)
					return
				}
			}
		}
	}
	checkVerts := func(who string, seen []model3d.Coord3D) {
		if bad != "" {
			return
		}
		cnt := map[model3d.Coord3D]int{}
		for _, c := range seen {
			cnt[c]++
		}
		for c := range wantV {
			if cnt[c] != 1 {
				bad = fmt.Sprintf("%s vertex pass over an unchanged mesh: vertex %v visited %d times", who, c, cnt[c])
				return
			}
		}
		if len(cnt) != len(wantV) {
			bad = fmt.Sprintf("%s vertex pass visited %d distinct vertices, the mesh has %d", who, len(cnt), len(wantV))
		}
	}
	runInner := func() {
		switch inner {
		case 0:
			var seen []*tri
			m.IterateSorted(func(t *tri) { seen = append(seen, t) }, down)
			checkFaces("nested", seen, down)
		case 1:
			var seen []*tri
			m.Iterate(func(t *tri) { seen = append(seen, t) })
			checkFaces("nested", seen, nil)
		case 2:
			var seen []model3d.Coord3D
			m.IterateVertices(func(c model3d.Coord3D) { seen = append(seen, c) })
			checkVerts("nested", seen)
		default:
			var seen []*tri
			m.IterateSorted(func(t *tri) { seen = append(seen, t) }, up)
			checkFaces("nested", seen, up)
		}
	}
	calls := 0
	switch outer {
	case 0:
		var seen []*tri
		m.Iterate(func(t *tri) {
			if calls == k {
				runInner()
			}
			calls++
			seen = append(seen, t)
		})
		checkFaces("outer", seen, nil)
	case 1:
		var seen []*tri
		m.IterateSorted(func(t *tri) {
			if calls == k {
				runInner()
			}
			calls++
			seen = append(seen, t)
		}, up)
		checkFaces("outer", seen, up)
	default:
		var seen []model3d.Coord3D
		m.IterateVertices(func(c model3d.Coord3D) {
			if calls == k {
				runInner()
			}
			calls++
			seen = append(seen, c)
		})
		checkVerts("outer", seen)
	}
	return bad
}

func less3(a, b model3d.Coord3D) bool {
	if a.X != b.X {
		return a.X < b.X
	}
	if a.Y != b.Y {
		return a.Y < b.Y
	}
	return a.Z < b.Z
}

func sortedFaces(ts []*tri) []*tri {
	sort.SliceStable(ts, func(i, j int) bool { return fmt.Sprint(coordSetOrdered(ts[i])) < fmt.Sprint(coordSetOrdered(ts[j])) })
	return ts
}

func firstN(s []string, n int) []string {
	if len(s) > n {
		return s[:n]
	}
	return s
}

// mapCoords: the derived mesh holds exactly the mapped faces with the same connectivity.
func (h *hist3) mapCoords(src *choice.Source) []Finding {
	kind := src.Intn(5)
	var f func(model3d.Coord3D) model3d.Coord3D
	name := ""
	switch kind {
	case 0:
		name = "Scale(2)"
		f = func(c model3d.Coord3D) model3d.Coord3D { return c.Scale(2) }
	case 1:
		name = "Translate"
		v := model3d.XYZ(1, -2, 0.5)
		f = v.Add
	case 2:
		name = "many-to-one snap"
		f = func(c model3d.Coord3D) model3d.Coord3D {
			return model3d.XYZ(math.Round(c.X), math.Round(c.Y), math.Round(c.Z))
		}
	case 3:
		name = "sign-of-zero sensitive"
		f = func(c model3d.Coord3D) model3d.Coord3D {
			return model3d.XYZ(c.X+math.Copysign(1, c.X), c.Y+math.Copysign(2, c.Y), c.Z+math.Copysign(3, c.Z))
		}
	case 4:
		name = "Rotate"
		rot := model3d.Rotation(model3d.Z(1), 0.7)
		f = rot.Apply
	}
	var derived *model3d.Mesh
	switch kind {
	case 0:
		derived = h.real.Scale(2)
	case 1:
		derived = h.real.Translate(model3d.XYZ(1, -2, 0.5))
	case 4:
		derived = h.real.Rotate(model3d.Z(1), 0.7)
	default:
		derived = h.real.MapCoords(f)
	}
	h.log("MapCoords(%s)", name)
	if derived.NumTriangles() != len(h.list) {
		// faces that map to equal values stay distinct faces (distinct pointers)
		return h.fail("mapcoords-count", fmt.Sprintf("%s: derived mesh has %d faces for %d current faces", name, derived.NumTriangles(), len(h.list)))
	}
	// each == class of source vertices must map to ONE image, which is f of one of
	// its members; faces keep their orientation.
	image := map[model3d.Coord3D][]model3d.Coord3D{}
	for _, t := range h.list {
		for _, c := range t {
			image[c] = append(image[c], f(c))
		}
	}
	want := map[string]int{}
	ambiguous := false
	for _, t := range h.list {
		var key string
		for _, c := range t {
			imgs := image[c]
			for _, im := range imgs[1:] {
				if norm(im) != norm(imgs[0]) {
					ambiguous = true
				}
			}
			key += fmt.Sprint(coordSet([]model3d.Coord3D{imgs[0]}))
		}
		want[key]++
	}
	if !ambiguous {
		got := map[string]int{}
		derived.Iterate(func(t *tri) {
			var key string
			for _, c := range t {
				key += fmt.Sprint(coordSet([]model3d.Coord3D{c}))
			}
			got[key]++
		})
		if fmt.Sprint(got) != fmt.Sprint(want) {
			return h.fail("mapcoords-faces", fmt.Sprintf("%s: derived mesh does not hold exactly the mapped faces", name))
		}
	} else {
		h.st.probe("mapcoords: one vertex had members with different images")
	}
	// same connectivity: the derived mesh must have as many distinct vertices as
	// the images of the source's distinct vertices
	imgSet := map[model3d.Coord3D]bool{}
	classes := 0
	for _, imgs := range image {
		classes++
		imgSet[norm(imgs[0])] = true
	}
	if !ambiguous && len(derived.VertexSlice()) != len(imgSet) {
		return h.fail("mapcoords-connectivity", fmt.Sprintf("%s: derived mesh has %d vertices, the mapped vertices are %d", name, len(derived.VertexSlice()), len(imgSet)))
	}
	if ambiguous && kind == 3 && len(derived.VertexSlice()) > classes {
		return h.fail("mapcoords-connectivity", fmt.Sprintf("%s: %d source vertices became %d derived vertices (a vertex was split)", name, classes, len(derived.VertexSlice())))
	}
	if src.Chance(1, 3) {
		h.real, h.list, h.removed = derived, sortedFaces(derived.TriangleSlice()), nil
		seen := map[model3d.Coord3D]bool{}
		h.pool = h.pool[:0]
		for _, t := range h.list {
			for _, c := range t {
				if !seen[c] && len(h.pool) < 40 {
					seen[c] = true
					h.pool = append(h.pool, c)
				}
			}
		}
		for len(h.pool) < 4 {
			h.pool = append(h.pool, model3d.XYZ(float64(len(h.pool)), 1, 2))
		}
		h.log("continue on the derived mesh")
	}
	return nil
}

// invert: InvertNormals reverses every face and is an involution.
func (h *hist3) invert() []Finding {
	inv := h.real.InvertNormals()
	h.log("InvertNormals")
	if inv.NumTriangles() != len(h.list) {
		return h.fail("invertnormals-count", fmt.Sprintf("InvertNormals returned %d faces for %d current faces", inv.NumTriangles(), len(h.list)))
	}
	var rev []*tri
	for _, t := range h.list {
		rev = append(rev, &tri{t[1], t[0], t[2]})
	}
	canon := func(ts []*tri) string {
		var out []string
		for _, t := range ts {
			// orientation class: rotate so that the smallest corner comes first
			c := coordSetOrdered(t)
			best := c
			for r := 1; r < 3; r++ {
				x := [3]string{c[r], c[(r+1)%3], c[(r+2)%3]}
				if fmt.Sprint(x) < fmt.Sprint(best) {
					best = x
				}
			}
			out = append(out, fmt.Sprint(best))
		}
		sort.Strings(out)
		return fmt.Sprint(out)
	}
	if canon(inv.TriangleSlice()) != canon(rev) {
		return h.fail("invertnormals-faces", "InvertNormals did not reverse every current face")
	}
	back := inv.InvertNormals()
	if canon(back.TriangleSlice()) != canon(h.list) {
		return h.fail("invertnormals-involution", "InvertNormals twice does not give back the faces")
	}
	return nil
}

// burst: k simulated reader tasks query the mesh concurrently (the first index
// build included) and every answer is compared with the list of current faces.
func (h *hist3) burst(t testingT, src, sched *choice.Source) []Finding {
	k := 2 + src.Intn(4)
	type q struct {
		v model3d.Coord3D
		n int
	}
	plans := make([][]q, k)
	for i := range plans {
		for j := 0; j < 2+src.Intn(4); j++ {
			plans[i] = append(plans[i], q{v: h.pool[src.Intn(len(h.pool))]})
		}
	}
	hadIndex := h.real.VerifHasVertexIndex()
	preList := append([]*tri(nil), h.list...) // what the readers must see
	pol := simsched.DrawPolicy(sched)
	// late editor (drawn on the auxiliary tape): one more task starts an
	// IterateVertices together with the readers - racing them to the first index
	// build - whose callback, at its first call, waits until every reader has
	// returned and then removes every face at some other vertex.  The edit happens
	// when nobody else is using the mesh, so it is legal; the running iteration
	// must not visit the vertex that is gone ("if f removes vertices, they will not
	// be visited") and must visit everything that stayed exactly once.
	lateEditor := sched.Aux().Intn(3) == 2 && len(h.list) >= 2
	var edVisited []model3d.Coord3D
	var edGone []model3d.Coord3D // vertices without a face after the edit
	var edRemoved []*tri
	edBad := ""
	res := simsched.Run(t.(simT), simsched.Config{Src: sched, Sticky: src.Intn(4), Policy: pol}, func() {
		var wg, wgE sync.WaitGroup
		if lateEditor {
			wgE.Add(1)
			go func() {
				defer wgE.Done()
				simsched.Yield("burst.start", k)
				first := true
				gone := map[model3d.Coord3D]bool{}
				h.real.IterateVertices(func(c model3d.Coord3D) {
					if first {
						first = false
						wg.Wait()
						// victim: the smallest current vertex (not "the smallest other than
						// c": which vertex comes first is the iteration order of a Go map, and
						// the history must not depend on it)
						var w model3d.Coord3D
						found := false
						for _, f := range h.list {
							for _, v := range f {
								if !found || less3(v, w) {
									w, found = v, true
								}
							}
						}
						if found {
							left := map[model3d.Coord3D]bool{}
							for _, f := range h.list {
								if f[0] == w || f[1] == w || f[2] == w {
									edRemoved = append(edRemoved, f)
									h.real.Remove(f)
								} else {
									left[f[0]], left[f[1]], left[f[2]] = true, true, true
								}
							}
							for _, f := range edRemoved {
								for _, v := range f {
									if !left[v] && !gone[v] {
										gone[v] = true
										edGone = append(edGone, v)
									}
								}
							}
						}
					} else if gone[c] && edBad == "" {
						edBad = fmt.Sprintf("IterateVertices visited %v although its callback had removed every face at that vertex before (the iteration raced concurrent readers to the first index build)", c)
					}
					edVisited = append(edVisited, c)
				})
			}()
		}
		for i := 0; i < k; i++ {
			wg.Add(1)
			go func(i int) {
				defer wg.Done()
				simsched.Yield("burst.start", i)
				for j := range plans[i] {
					plans[i][j].n = len(h.real.Find(plans[i][j].v))
					simsched.Yield("burst.next", i)
				}
			}(i)
		}
		simsched.Yield("burst.wait", 0)
		wg.Wait()
		wgE.Wait()
	})
	if lateEditor {
		h.st.probe("burst: late editor (IterateVertices racing the readers, then editing)")
		h.log("late editor removed %d faces", len(edRemoved))
		before := map[model3d.Coord3D]bool{}
		for _, f := range h.list {
			before[f[0]], before[f[1]], before[f[2]] = true, true, true
		}
		for _, f := range edRemoved {
			for i, g := range h.list {
				if g == f {
					h.list = append(h.list[:i:i], h.list[i+1:]...)
					break
				}
			}
			h.removed = append(h.removed, f)
		}
		if res.Deadlock || res.Livelock || res.Panic != nil {
			return h.fail("burst-run", fmt.Sprintf("reader burst with late editor: deadlock=%v livelock=%v panic=%v", res.Deadlock, res.Livelock, res.Panic))
		}
		if edBad != "" {
			return h.fail("burst-late-editor", edBad)
		}
		goneSet := map[model3d.Coord3D]bool{}
		for _, v := range edGone {
			goneSet[v] = true
		}
		count := map[model3d.Coord3D]int{}
		for _, v := range edVisited {
			count[v]++
			if !before[v] {
				return h.fail("burst-late-editor", fmt.Sprintf("IterateVertices visited %v, which no face used", v))
			}
		}
		for v := range before {
			if !goneSet[v] && count[v] != 1 {
				return h.fail("burst-late-editor", fmt.Sprintf("IterateVertices visited vertex %v, which stayed in the mesh, %d times", v, count[v]))
			}
		}
	}
	h.st.Steps += res.Steps
	h.st.TraceHashes = append(h.st.TraceHashes, res.TraceHash)
	h.log("reader burst (%d tasks, index present before: %v)", k, hadIndex)
	h.st.probe("reader bursts")
	if !hadIndex && res.Sites["mesh.v2f.beforelock"] >= 2 {
		h.st.probe("burst: >=2 readers raced to build the index")
	}
	if res.Deadlock || res.Livelock || res.Panic != nil {
		return h.fail("burst-run", fmt.Sprintf("reader burst: deadlock=%v livelock=%v panic=%v", res.Deadlock, res.Livelock, res.Panic))
	}
	for i := range plans {
		for _, qq := range plans[i] {
			want := 0
			for _, tr := range preList {
				if tr[0] == qq.v || tr[1] == qq.v || tr[2] == qq.v {
					want++
				}
			}
			if qq.n != want {
				return h.fail("burst-find", fmt.Sprintf("concurrent Find(%v) returned %d faces, %d current faces touch it", qq.v, qq.n, want))
			}
		}
	}
	return nil
}

// runMesh3Mid: a mesh of a thousand to a few thousand faces (anything the mesh does
// differently from some size on is crossed cheaply here), a few additions and
// removals, and between them read-only passes nested in one another.
func runMesh3Mid(src *choice.Source, st *Stats) (fs []Finding) {
	k := 16 + src.Intn(24) // 2*k*k = 512 .. 3042 faces
	pt := func(x, y int) model3d.Coord3D { return model3d.XYZ(float64(x), float64(y), float64((x*7+y*3)%5)) }
	m := model3d.NewMesh()
	var faces []*tri
	for y := 0; y < k; y++ {
		for x := 0; x < k; x++ {
			a, b := &tri{pt(x, y), pt(x+1, y), pt(x+1, y+1)}, &tri{pt(x, y), pt(x+1, y+1), pt(x, y+1)}
			faces = append(faces, a, b)
			m.Add(a)
			m.Add(b)
		}
	}
	var trace []string
	for step, n := 0, 2+src.Intn(5); step < n; step++ {
		switch src.Intn(4) {
		case 0:
			t := &tri{pt(src.Intn(k), src.Intn(k)), pt(src.Intn(k), src.Intn(k)), model3d.XYZ(0.5, float64(step), 9)}
			m.Add(t)
			faces = append(faces, t)
			trace = append(trace, "Add")
		case 1:
			i := src.Intn(len(faces))
			m.Remove(faces[i])
			faces[i] = faces[len(faces)-1]
			faces = faces[:len(faces)-1]
			trace = append(trace, "Remove")
		default:
			outer, inner := src.Intn(3), src.Intn(4)
			if bad := nestedIteration(m, faces, outer, inner, src.Intn(len(faces))); bad != "" {
				return []Finding{{"mesh3mid|nested-iteration", bad + fmt.Sprintf(" [after %v; outer %d, inner %d]", trace, outer, inner)}}
			}
			trace = append(trace, fmt.Sprintf("nested(%d,%d)", outer, inner))
		}
		st.Ops++
		if got, want := m.NumTriangles(), len(faces); got != want {
			return []Finding{{"mesh3mid|count", fmt.Sprintf("NumTriangles %d, model %d after %v", got, want, trace)}}
		}
	}
	// a plain pass at the end sees exactly the current faces
	if bad := nestedIteration(m, faces, 0, 1, len(faces)+1); bad != "" {
		return []Finding{{"mesh3mid|iteration", bad}}
	}
	st.probe("mid-size mesh with nested passes")
	st.Desc = fmt.Sprintf("mesh3mid: %d faces, %v", len(faces), trace)
	return nil
}

// runMesh3Big: a mesh of more than 65536 faces whose vertex index is built at that
// size, followed by a few additions and removals.  Anything the index does
// differently for big meshes (bulk allocation, packing several lists into one
// array) is exercised; after every operation Find is compared with a plain
// vertex -> faces table for EVERY vertex (cheap: one pass).
func runMesh3Big(src *choice.Source, st *Stats) (fs []Finding) {
	k := 182 + src.Intn(6)
	pt := func(x, y int) model3d.Coord3D { return model3d.XYZ(float64(x), float64(y), 0) }
	model := map[model3d.Coord3D]map[*tri]bool{}
	var faces []*tri
	addModel := func(t *tri) {
		for _, c := range t {
			if model[c] == nil {
				model[c] = map[*tri]bool{}
			}
			model[c][t] = true
		}
	}
	for y := 0; y < k; y++ {
		for x := 0; x < k; x++ {
			a, b := &tri{pt(x, y), pt(x+1, y), pt(x+1, y+1)}, &tri{pt(x, y), pt(x+1, y+1), pt(x, y+1)}
			faces = append(faces, a, b)
			addModel(a)
			addModel(b)
		}
	}
	// one vertex sticks far out: it alone sets the lower x and y bounds
	spike := model3d.XYZ(-5, -7, 0)
	for _, t := range faces {
		for j, c := range t {
			if c == pt(0, 0) {
				t[j] = spike
			}
		}
	}
	model[spike] = model[pt(0, 0)]
	delete(model, pt(0, 0))
	m := model3d.NewMeshTriangles(faces)
	built := src.Chance(3, 4)
	if built {
		m.VertexSlice() // the index comes into existence over > 65536 faces
	}
	st.NonTrivial = true
	st.probe("big mesh (more than 65536 faces)")
	n := 2 + src.Intn(6)
	var trace []string
	check := func() []Finding {
		if m.NumTriangles() != len(faces) {
			return []Finding{{"mesh3big|count", fmt.Sprintf("after %v: NumTriangles = %d, %d faces are in the mesh", trace, m.NumTriangles(), len(faces))}}
		}
		nv := 0
		for v, want := range model {
			if len(want) == 0 {
				continue
			}
			nv++
			got := m.Find(v)
			ok := len(got) == len(want)
			for _, t := range got {
				ok = ok && t != nil && want[t]
			}
			if !ok {
				return []Finding{{"mesh3big|find", fmt.Sprintf("after %v on a mesh of %d faces: Find(%v) returned %d faces, %d of the current faces touch that vertex (or a returned face does not)", trace, len(faces), v, len(got), len(want))}}
			}
		}
		if got := len(m.VertexSlice()); got != nv {
			return []Finding{{"mesh3big|vertexslice", fmt.Sprintf("after %v: VertexSlice has %d vertices, the current faces have %d", trace, got, nv)}}
		}
		return nil
	}
	if src.Chance(1, 6) {
		// an in-place editor whose callback looks at the intermediate mesh: the
		// predicate asks for the bounds every time and lets the editor collapse the
		// edges at the spike (and a few others); afterwards every answer of the
		// result - bounds included - must be that of its current faces
		accepted, calls := 0, 0
		st.MapDep = "EliminateEdges picks segments in the iteration order of a Go map"
		res := m.EliminateEdges(func(tmp *model3d.Mesh, seg model3d.Segment) bool {
			calls++
			if calls <= 3 {
				// (a full pass over the faces each: only the first few calls ask)
				lo, hi := tmp.Min(), tmp.Max()
				_ = lo.Dist(hi)
			}
			if seg[0] == spike || seg[1] == spike || accepted < 12 && (seg[0].X+seg[0].Y+seg[1].X) == float64(int(seg[0].X+seg[0].Y+seg[1].X)) && int(seg[0].X*7+seg[0].Y*3)%97 == 0 {
				accepted++
				return true
			}
			return false
		})
		st.Ops++
		lo, hi := res.Min(), res.Max()
		first := true
		var wlo, whi model3d.Coord3D
		res.Iterate(func(t *model3d.Triangle) {
			for _, c := range t {
				if first {
					wlo, whi, first = c, c, false
				}
				wlo, whi = wlo.Min(c), whi.Max(c)
			}
		})
		if !first && (lo != wlo || hi != whi) {
			return []Finding{{"mesh3big|bounds-after-editor", fmt.Sprintf("EliminateEdges (its predicate queried Min/Max of the intermediate mesh, %d edges collapsed) returned a mesh of %d faces whose Min/Max are %v %v, but its faces span %v %v", accepted, res.NumTriangles(), lo, hi, wlo, whi)}}
		}
		fresh := model3d.NewMeshTriangles(res.TriangleSlice())
		if len(res.VertexSlice()) != len(fresh.VertexSlice()) {
			return []Finding{{"mesh3big|vertexslice-after-editor", fmt.Sprintf("EliminateEdges on %d faces: VertexSlice has %d vertices, a mesh freshly built from the result has %d", len(faces), len(res.VertexSlice()), len(fresh.VertexSlice()))}}
		}
		st.probe("big mesh: EliminateEdges with a predicate that queries the bounds")
		st.Desc = fmt.Sprintf("mesh3big: EliminateEdges with querying predicate on %d faces, %d collapses", len(faces), accepted)
		return nil
	}
	for step := 0; step < n; step++ {
		switch src.Intn(6) {
		case 0, 1: // a new face at vertices that existed when the index was built
			x, y := src.Intn(k), src.Intn(k)
			t := &tri{pt(x, y), pt(x+1, y+1), pt((x+7)%k, (y+3)%k)}
			m.Add(t)
			faces = append(faces, t)
			addModel(t)
			trace = append(trace, "Add(at existing vertices)")
		case 2: // a face with a brand-new vertex
			t := &tri{pt(src.Intn(k), src.Intn(k)), pt(src.Intn(k), src.Intn(k)), model3d.XYZ(0.5+float64(src.Intn(k)), 0.5, float64(1+step))}
			m.Add(t)
			faces = append(faces, t)
			addModel(t)
			trace = append(trace, "Add(new vertex)")
		case 3: // remove a present face
			i := src.Intn(len(faces))
			t := faces[i]
			m.Remove(t)
			faces[i] = faces[len(faces)-1]
			faces = faces[:len(faces)-1]
			for _, c := range t {
				delete(model[c], t)
			}
			trace = append(trace, "Remove(present)")
		case 4: // duplicate pointer / absent face: both no-ops
			m.Add(faces[src.Intn(len(faces))])
			m.Remove(&tri{pt(1, 1), pt(2, 2), pt(3, 5)})
			trace = append(trace, "Add(duplicate)+Remove(absent)")
		default: // merge a small mesh in (sharing one face pointer)
			other := model3d.NewMesh()
			t := &tri{pt(src.Intn(k), src.Intn(k)), pt(src.Intn(k), src.Intn(k)), pt(src.Intn(k), src.Intn(k))}
			other.Add(t)
			other.Add(faces[src.Intn(len(faces))])
			if src.Chance(1, 2) {
				other.VertexSlice()
			}
			m.AddMesh(other)
			faces = append(faces, t)
			addModel(t)
			trace = append(trace, "AddMesh")
		}
		st.Ops++
		if f := check(); f != nil {
			return f
		}
	}
	// (drawn last) a read-only pass nested in another pass over the big mesh
	if src.Chance(1, 2) {
		outer, inner := src.Intn(3), src.Intn(4)
		if bad := nestedIteration(m, faces, outer, inner, src.Intn(len(faces))); bad != "" {
			return []Finding{{"mesh3big|nested-iteration", bad}}
		}
		st.probe("big mesh: nested read-only iteration")
		trace = append(trace, fmt.Sprintf("nested iteration (outer %d, inner %d)", outer, inner))
	}
	st.Desc = fmt.Sprintf("mesh3big: %d faces, index built first: %v, %v", len(faces), built, trace)
	return nil
}
