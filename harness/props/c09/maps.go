//go:build verif

package c09

import (
	"fmt"
	"sort"

	"github.com/unixpickle/model3d/model2d"
	"github.com/unixpickle/model3d/model3d"
	"verif/harness/choice"
)

// mapOps adapts one of the twelve coordinate-keyed map types.
type mapOps[K comparable, V any] struct {
	name       string
	store      func(K, V)
	load       func(K) (V, bool)
	value      func(K) V
	del        func(K)
	length     func() int
	rng        func(func(K, V) bool)
	keyRange   func(func(K) bool)
	valueRange func(func(V) bool)
	extra      func(K, int) V // Append / Add
	hash       func(K) uint64
}

// runMap drives one map type and an ordinary Go map with the same operations.
func runMap[K comparable, V any](src *choice.Source, st *Stats, m mapOps[K, V], pool []K, mkVal func(int) V, extraModel func(V, int) V) (fs []Finding) {
	model := map[K]V{}
	digest := func(v V) string { return fmt.Sprint(v) }
	fail := func(kind, msg string, step int, trace []string) []Finding {
		return []Finding{{"map|" + m.name + "|" + kind, fmt.Sprintf("%s after %d operations: %s; history: %v", m.name, step, msg, trace)}}
	}
	var trace []string
	n := 3 + src.Intn(60)
	crossed := false
	for step := 0; step < n; step++ {
		k := src.Intn(len(pool))
		key := pool[k]
		op := src.Intn(10)
		switch op {
		case 0, 1, 2:
			v := mkVal(step + 1)
			for other := range model {
				if other != key && m.hash(other) == m.hash(key) {
					crossed = true
				}
			}
			m.store(key, v)
			model[key] = v
			trace = append(trace, fmt.Sprintf("Store(k%d)", k))
		case 3:
			m.del(key)
			delete(model, key)
			trace = append(trace, fmt.Sprintf("Delete(k%d)", k))
		case 4, 5:
			if m.extra == nil {
				continue
			}
			for other := range model {
				if other != key && m.hash(other) == m.hash(key) {
					crossed = true
				}
			}
			got := m.extra(key, step+1)
			want := extraModel(model[key], step+1)
			model[key] = want
			trace = append(trace, fmt.Sprintf("AppendOrAdd(k%d)", k))
			if digest(got) != digest(want) {
				return fail("extra-result", fmt.Sprintf("Append/Add(k%d) returned %v, an ordinary map gives %v", k, got, want), step+1, trace)
			}
		case 6:
			got, ok := m.load(key)
			want, wok := model[key]
			trace = append(trace, fmt.Sprintf("Load(k%d)", k))
			if ok != wok || ok && digest(got) != digest(want) {
				return fail("load", fmt.Sprintf("Load(k%d) = (%v,%v), an ordinary map gives (%v,%v)", k, got, ok, want, wok), step+1, trace)
			}
		case 7:
			trace = append(trace, "Range")
			seen := map[K]bool{}
			bad := ""
			m.rng(func(kk K, v V) bool {
				if seen[kk] {
					bad = fmt.Sprintf("Range visited key %v twice", kk)
				}
				seen[kk] = true
				if w, ok := model[kk]; !ok || digest(w) != digest(v) {
					bad = fmt.Sprintf("Range visited (%v,%v); an ordinary map has (%v,%v)", kk, v, w, ok)
				}
				return true
			})
			if bad == "" && len(seen) != len(model) {
				bad = fmt.Sprintf("Range visited %d keys of %d", len(seen), len(model))
			}
			if bad != "" {
				return fail("range", bad, step+1, trace)
			}
		case 8:
			trace = append(trace, "KeyRange/ValueRange")
			nk := 0
			bad := ""
			m.keyRange(func(kk K) bool {
				nk++
				if _, ok := model[kk]; !ok {
					bad = fmt.Sprintf("KeyRange visited absent key %v", kk)
				}
				return true
			})
			var vs, ws []string
			m.valueRange(func(v V) bool { vs = append(vs, digest(v)); return true })
			for _, w := range model {
				ws = append(ws, digest(w))
			}
			sort.Strings(vs)
			sort.Strings(ws)
			if bad == "" && (nk != len(model) || fmt.Sprint(vs) != fmt.Sprint(ws)) {
				bad = fmt.Sprintf("KeyRange visited %d keys, ValueRange values %v; an ordinary map has %d keys, values %v", nk, vs, len(model), ws)
			}
			if bad != "" {
				return fail("keyrange", bad, step+1, trace)
			}
			// early exit must stop the iteration
			if len(model) > 1 {
				cnt := 0
				m.rng(func(K, V) bool { cnt++; return false })
				if cnt != 1 {
					return fail("range-stop", fmt.Sprintf("Range called the callback %d times after it returned false", cnt), step+1, trace)
				}
			}
		case 9:
			got := m.value(key)
			want := model[key]
			trace = append(trace, fmt.Sprintf("Value(k%d)", k))
			if digest(got) != digest(want) {
				return fail("value", fmt.Sprintf("Value(k%d) = %v, an ordinary map gives %v", k, got, want), step+1, trace)
			}
		}
		// the full observable state after every operation
		if m.length() != len(model) {
			return fail("len", fmt.Sprintf("Len() = %d, an ordinary map has %d entries", m.length(), len(model)), step+1, trace)
		}
		for i, pk := range pool {
			got, ok := m.load(pk)
			want, wok := model[pk]
			if ok != wok || ok && digest(got) != digest(want) {
				return fail("state", fmt.Sprintf("Load(k%d) = (%v,%v), an ordinary map gives (%v,%v)", i, got, ok, want, wok), step+1, trace)
			}
		}
		st.Ops++
	}
	if crossed {
		st.probe("history crossed the fast->slow switch")
	}
	st.NonTrivial = n > 3
	st.Desc = fmt.Sprintf("%s: %d operations over %d keys (crossed switch: %v)", m.name, n, len(pool), crossed)
	return nil
}

// ---------------------------------------------------------------- key pools

func partner3(p model3d.Coord3D, axis int) model3d.Coord3D {
	h := model3d.VerifFastHash64(p)
	best := p
	for e := 1e-30; e < 1; e *= 8 {
		q := p
		switch axis {
		case 0:
			q.X += e
		case 1:
			q.Y += e
		default:
			q.Z += e
		}
		if q == p {
			continue
		}
		if model3d.VerifFastHash64(q) != h {
			break
		}
		best = q
	}
	return best
}

func partner2(p model2d.Coord, axis int) model2d.Coord {
	h := model2d.VerifFastHash64(p)
	best := p
	for e := 1e-30; e < 1; e *= 8 {
		q := p
		if axis == 0 {
			q.X += e
		} else {
			q.Y += e
		}
		if q == p {
			continue
		}
		if model2d.VerifFastHash64(q) != h {
			break
		}
		best = q
	}
	return best
}

func negZero() float64 { z := 0.0; return -z }

// pool3 returns coordinates containing hash-colliding pairs/triples and keys that
// are equal but not bit-identical.
func pool3(src *choice.Source) []model3d.Coord3D {
	var pool []model3d.Coord3D
	nb := 2 + src.Intn(3)
	for i := 0; i < nb; i++ {
		p := model3d.XYZ(float64(1+src.Intn(4)), float64(src.Intn(3)), float64(src.Intn(3))/2)
		pool = append(pool, p)
		if src.Chance(2, 3) {
			pool = append(pool, partner3(p, 1))
		}
		if src.Chance(1, 3) {
			pool = append(pool, partner3(p, 2))
		}
	}
	nz := negZero()
	zs := []model3d.Coord3D{model3d.XYZ(0, 0, 0), model3d.XYZ(nz, nz, nz), model3d.XYZ(nz, 0, 0), model3d.XYZ(0, nz, 1), model3d.XYZ(0, 0, 1)}
	for _, z := range zs {
		if src.Chance(1, 2) {
			pool = append(pool, z)
		}
	}
	return pool
}

func pool2(src *choice.Source) []model2d.Coord {
	var pool []model2d.Coord
	nb := 2 + src.Intn(3)
	for i := 0; i < nb; i++ {
		p := model2d.XY(float64(1+src.Intn(4)), float64(src.Intn(3))/2)
		pool = append(pool, p)
		if src.Chance(2, 3) {
			pool = append(pool, partner2(p, 1))
		}
		if src.Chance(1, 3) {
			pool = append(pool, partner2(p, 0))
		}
	}
	nz := negZero()
	for _, z := range []model2d.Coord{model2d.XY(0, 0), model2d.XY(nz, nz), model2d.XY(nz, 0), model2d.XY(0, 1), model2d.XY(nz, 1)} {
		if src.Chance(1, 2) {
			pool = append(pool, z)
		}
	}
	return pool
}

func edges3(src *choice.Source, p []model3d.Coord3D) [][2]model3d.Coord3D {
	var out [][2]model3d.Coord3D
	n := 4 + src.Intn(8)
	for i := 0; i < n; i++ {
		out = append(out, [2]model3d.Coord3D{p[src.Intn(len(p))], p[src.Intn(len(p))]})
	}
	return out
}

func edges2(src *choice.Source, p []model2d.Coord) [][2]model2d.Coord {
	var out [][2]model2d.Coord
	n := 4 + src.Intn(8)
	for i := 0; i < n; i++ {
		out = append(out, [2]model2d.Coord{p[src.Intn(len(p))], p[src.Intn(len(p))]})
	}
	return out
}

func eh3(e [2]model3d.Coord3D) uint64 {
	return uint64(model3d.VerifFastHash32(e[0])) | uint64(model3d.VerifFastHash32(e[1]))<<32
}
func eh2(e [2]model2d.Coord) uint64 {
	return uint64(model2d.VerifFastHash32(e[0])) | uint64(model2d.VerifFastHash32(e[1]))<<32
}

func intVal(i int) int          { return i }
func sliceVal(i int) []int      { return []int{i, -i} }
func addModel(v int, x int) int { return v + x }
func appendModel(v []int, x int) []int {
	return append(append([]int{}, v...), x)
}

var MapKinds = []string{"CoordMap3", "CoordToSlice3", "CoordToNumber3", "EdgeMap3", "EdgeToSlice3", "EdgeToNumber3",
	"CoordMap2", "CoordToSlice2", "CoordToNumber2", "EdgeMap2", "EdgeToSlice2", "EdgeToNumber2"}

func runMapKind(kind string, src *choice.Source, st *Stats) []Finding {
	switch kind {
	case "CoordMap3":
		m := model3d.NewCoordMap[int]()
		return runMap(src, st, mapOps[model3d.Coord3D, int]{name: "model3d.CoordMap", store: m.Store, load: m.Load, value: m.Value, del: m.Delete,
			length: m.Len, rng: m.Range, keyRange: m.KeyRange, valueRange: m.ValueRange, hash: model3d.VerifFastHash64}, pool3(src), intVal, nil)
	case "CoordToSlice3":
		m := model3d.NewCoordToSlice[int]()
		return runMap(src, st, mapOps[model3d.Coord3D, []int]{name: "model3d.CoordToSlice", store: m.Store, load: m.Load, value: m.Value, del: m.Delete,
			length: m.Len, rng: m.Range, keyRange: m.KeyRange, valueRange: m.ValueRange, extra: m.Append, hash: model3d.VerifFastHash64}, pool3(src), sliceVal, appendModel)
	case "CoordToNumber3":
		m := model3d.NewCoordToNumber[int]()
		return runMap(src, st, mapOps[model3d.Coord3D, int]{name: "model3d.CoordToNumber", store: m.Store, load: m.Load, value: m.Value, del: m.Delete,
			length: m.Len, rng: m.Range, keyRange: m.KeyRange, valueRange: m.ValueRange, extra: m.Add, hash: model3d.VerifFastHash64}, pool3(src), intVal, addModel)
	case "EdgeMap3":
		m := model3d.NewEdgeMap[int]()
		return runMap(src, st, mapOps[[2]model3d.Coord3D, int]{name: "model3d.EdgeMap", store: m.Store, load: m.Load, value: m.Value, del: m.Delete,
			length: m.Len, rng: m.Range, keyRange: m.KeyRange, valueRange: m.ValueRange, hash: eh3}, edges3(src, pool3(src)), intVal, nil)
	case "EdgeToSlice3":
		m := model3d.NewEdgeToSlice[int]()
		return runMap(src, st, mapOps[[2]model3d.Coord3D, []int]{name: "model3d.EdgeToSlice", store: m.Store, load: m.Load, value: m.Value, del: m.Delete,
			length: m.Len, rng: m.Range, keyRange: m.KeyRange, valueRange: m.ValueRange, extra: m.Append, hash: eh3}, edges3(src, pool3(src)), sliceVal, appendModel)
	case "EdgeToNumber3":
		m := model3d.NewEdgeToNumber[int]()
		return runMap(src, st, mapOps[[2]model3d.Coord3D, int]{name: "model3d.EdgeToNumber", store: m.Store, load: m.Load, value: m.Value, del: m.Delete,
			length: m.Len, rng: m.Range, keyRange: m.KeyRange, valueRange: m.ValueRange, extra: m.Add, hash: eh3}, edges3(src, pool3(src)), intVal, addModel)
	case "CoordMap2":
		m := model2d.NewCoordMap[int]()
		return runMap(src, st, mapOps[model2d.Coord, int]{name: "model2d.CoordMap", store: m.Store, load: m.Load, value: m.Value, del: m.Delete,
			length: m.Len, rng: m.Range, keyRange: m.KeyRange, valueRange: m.ValueRange, hash: model2d.VerifFastHash64}, pool2(src), intVal, nil)
	case "CoordToSlice2":
		m := model2d.NewCoordToSlice[int]()
		return runMap(src, st, mapOps[model2d.Coord, []int]{name: "model2d.CoordToSlice", store: m.Store, load: m.Load, value: m.Value, del: m.Delete,
			length: m.Len, rng: m.Range, keyRange: m.KeyRange, valueRange: m.ValueRange, extra: m.Append, hash: model2d.VerifFastHash64}, pool2(src), sliceVal, appendModel)
	case "CoordToNumber2":
		m := model2d.NewCoordToNumber[int]()
		return runMap(src, st, mapOps[model2d.Coord, int]{name: "model2d.CoordToNumber", store: m.Store, load: m.Load, value: m.Value, del: m.Delete,
			length: m.Len, rng: m.Range, keyRange: m.KeyRange, valueRange: m.ValueRange, extra: m.Add, hash: model2d.VerifFastHash64}, pool2(src), intVal, addModel)
	case "EdgeMap2":
		m := model2d.NewEdgeMap[int]()
		return runMap(src, st, mapOps[[2]model2d.Coord, int]{name: "model2d.EdgeMap", store: m.Store, load: m.Load, value: m.Value, del: m.Delete,
			length: m.Len, rng: m.Range, keyRange: m.KeyRange, valueRange: m.ValueRange, hash: eh2}, edges2(src, pool2(src)), intVal, nil)
	case "EdgeToSlice2":
		m := model2d.NewEdgeToSlice[int]()
		return runMap(src, st, mapOps[[2]model2d.Coord, []int]{name: "model2d.EdgeToSlice", store: m.Store, load: m.Load, value: m.Value, del: m.Delete,
			length: m.Len, rng: m.Range, keyRange: m.KeyRange, valueRange: m.ValueRange, extra: m.Append, hash: eh2}, edges2(src, pool2(src)), sliceVal, appendModel)
	case "EdgeToNumber2":
		m := model2d.NewEdgeToNumber[int]()
		return runMap(src, st, mapOps[[2]model2d.Coord, int]{name: "model2d.EdgeToNumber", store: m.Store, load: m.Load, value: m.Value, del: m.Delete,
			length: m.Len, rng: m.Range, keyRange: m.KeyRange, valueRange: m.ValueRange, extra: m.Add, hash: eh2}, edges2(src, pool2(src)), intVal, addModel)
	}
	panic("unknown map kind " + kind)
}
