//go:build verif

// Package c09: after any history of operations a mesh answers as the plain
// list of its current faces would, and the coordinate-keyed maps behave like
// ordinary maps (DESIGN.md section 4, C09).  Engine: simhist - generated
// histories run in lock-step against a reference model; the points at which
// the lazy index is built, hash collisions occur and reader bursts happen are
// drawn from the choice tape.
package c09

import (
	"strings"
	"testing"

	"verif/harness/choice"
	_ "verif/harness/hook"
)

type Case struct {
	Property string   `json:"property"`
	Engine   string   `json:"engine"`
	Kind     string   `json:"kind"`
	Tape     []uint32 `json:"tape"`
	Sched    []uint32 `json:"sched"`
	// Pol: the auxiliary tape of the schedule stream (scheduling policy, priorities)
	Pol []uint32 `json:"pol,omitempty"`
	// StartHash: digest of the starting mesh when it came out of a library
	// routine whose result depends on Go map order (see startMesh3).
	StartHash string `json:"start_hash,omitempty"`
	// Seed/Index identify a PRNG-driven case whose tapes could not be recorded (the
	// process had to be killed mid-case); replay then regenerates it from the PRNG.
	Seed  uint64 `json:"seed,omitempty"`
	Index int    `json:"index,omitempty"`
}

type Finding struct{ Sig, Msg string }

type Stats struct {
	Ops         int
	Steps       int
	TraceHashes []string
	NonTrivial  bool
	Desc        string
	// MapDep names the library routine whose Go-map iteration legitimately
	// influences this case's execution order or bytes ("" = none): such a case is
	// compared only on its order-free parts by the determinism self-test.
	MapDep string
	// WantStart (in, replay) / StartHash (out): see Case.StartHash.
	WantStart, StartHash string
	Probes      map[string]int
}

func (s *Stats) probe(k string) {
	if s.Probes == nil {
		s.Probes = map[string]int{}
	}
	s.Probes[k]++
}

type testingT interface{}
type simT = *testing.T

// (sixteen kinds and sixteen worker processes: every process stays with one kind,
// so the heavy kinds - mesh3big takes seconds per case - cost one process, not all)
var Kinds = append([]string{"mesh3", "mesh2", "mesh3mid", "mesh3big"}, prefixed("map:", MapKinds)...)

func prefixed(p string, s []string) []string {
	var out []string
	for _, x := range s {
		out = append(out, p+x)
	}
	return out
}

func RunCase(t *testing.T, c *Case, src, sched *choice.Source, st *Stats) (fs []Finding) {
	st.WantStart = c.StartHash
	defer func() { c.Tape, c.Sched, c.Pol, c.StartHash = src.Tape(), sched.Tape(), sched.AuxTape(), st.StartHash }()
	switch {
	case c.Kind == "mesh3":
		return runMesh3(t, src, sched, st)
	case c.Kind == "mesh2":
		return runMesh2(src, st)
	case c.Kind == "mesh3mid":
		return runMesh3Mid(src, st)
	case c.Kind == "mesh3big":
		return runMesh3Big(src, st)
	case strings.HasPrefix(c.Kind, "map:"):
		return runMapKind(c.Kind[4:], src, st)
	}
	panic("unknown kind " + c.Kind)
}
