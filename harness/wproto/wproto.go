// Package wproto is the protocol between the ./check driver and a worker
// process: a job file in (VERIF_JOB), JSON lines out (VERIF_OUT).  The driver
// attributes the death of a worker to the last case that was begun but not
// ended.
package wproto

import (
	"crypto/sha1"
	"encoding/hex"
	"encoding/json"
	"fmt"
	"os"
	"runtime"
	"sort"
	"strings"
	"sync"
	"sync/atomic"
	"time"
)

type Job struct {
	Mode     string            `json:"mode"` // explore | replay
	Tier     string            `json:"tier"`
	Seed     uint64            `json:"seed"`
	Shard    int               `json:"shard"`
	NShards  int               `json:"nshards"`
	Start    int               `json:"start"`
	BudgetS  float64           `json:"budget_s"`
	MaxCases int               `json:"max_cases"`
	Cases    []json.RawMessage `json:"cases"`
	Params   map[string]string `json:"params"`
}

func LoadJob() (*Job, error) {
	p := os.Getenv("VERIF_JOB")
	if p == "" {
		return nil, fmt.Errorf("VERIF_JOB not set")
	}
	b, err := os.ReadFile(p)
	if err != nil {
		return nil, err
	}
	j := &Job{NShards: 1}
	if err := json.Unmarshal(b, j); err != nil {
		return nil, err
	}
	if j.NShards < 1 {
		j.NShards = 1
	}
	return j, nil
}

// KindList is the list of workload kinds to cycle through: the worker's
// default, or the comma-separated job parameter "kinds" (targeted deep runs).
func (j *Job) KindList(def []string) []string {
	if k := j.Params["kinds"]; k != "" {
		return strings.Split(k, ",")
	}
	return def
}

type Out struct {
	f        *os.File
	Counters map[string]int64
	Sets     map[string]map[string]struct{}
	Samples  []any
	start    time.Time
	ticks    int
	began    int64
	sampled  int

	recycleTicks int
	kindSamples  map[string]int
	recent       []json.RawMessage

	// StuckFlag (set by the worker to &simsched.Stuck) and OnStuck (set per case):
	// see Watch.
	StuckFlag *int32
	// SimActive reports whether a simulated run is in progress (set by the worker)
	SimActive func() bool
	stuckMu   sync.Mutex
	stuckFn   func()
	// StallProbe (set by the worker to simsched.StallProbe) returns a description
	// when the simulated run in progress has stopped for good because goroutines
	// of the system under test are blocked on something that lives outside the
	// simulation (a process-wide channel or lock): see Watch.
	StallProbe func() string
	stallMsg   string
}

// StuckWhat is for the per-case stuck handler: signature and message of what
// Watch has found.
func (o *Out) StuckWhat() (sig, msg string) {
	if o.stallMsg != "" {
		return "deadlock|blocked-outside-simulation", o.stallMsg
	}
	return "livelock|never-returned", "the run exceeded its scheduler step budget and, left to run freely, still had not returned three seconds later: an endless loop"
}

// SetOnStuck installs the per-case handler that Watch calls when a run is stuck.
func (o *Out) SetOnStuck(f func()) {
	o.stuckMu.Lock()
	o.stuckFn = f
	o.stuckMu.Unlock()
}

func (o *Out) onStuck() func() {
	o.stuckMu.Lock()
	defer o.stuckMu.Unlock()
	return o.stuckFn
}

func OpenOut() (*Out, error) {
	p := os.Getenv("VERIF_OUT")
	var f *os.File
	var err error
	if p == "" {
		f = os.Stdout
	} else {
		f, err = os.OpenFile(p, os.O_CREATE|os.O_WRONLY|os.O_APPEND, 0o644)
		if err != nil {
			return nil, err
		}
	}
	return &Out{f: f, Counters: map[string]int64{}, Sets: map[string]map[string]struct{}{}, start: time.Now()}, nil
}

func (o *Out) Emit(v any) {
	b, err := json.Marshal(v)
	if err != nil {
		panic(err)
	}
	b = append(b, '\n')
	o.f.Write(b)
}

func (o *Out) Begin(id any) {
	o.Emit(map[string]any{"t": "begin", "case": id})
	atomic.StoreInt64(&o.began, time.Now().UnixNano())
}

func (o *Out) End(id any, sigs []string) {
	atomic.StoreInt64(&o.began, 0)
	o.Emit(map[string]any{"t": "end", "case": id, "sigs": sigs})
}

// Watch starts a real-time watchdog (call it outside any synctest bubble): a
// case that runs longer than limit makes the worker dump all goroutine stacks
// and exit with status 3, which the driver reports as harness trouble.
func (o *Out) Watch(limit time.Duration) {
	go func() {
		stuckFor := 0
		for {
			time.Sleep(250 * time.Millisecond)
			if o.StuckFlag != nil && atomic.LoadInt32(o.StuckFlag) != 0 {
				stuckFor++
				if h := o.onStuck(); stuckFor >= 12 && h != nil {
					// three seconds after the step budget ran out the run has still
					// not returned: an endless loop in the system under test
					h()
					os.Exit(0)
				}
			} else {
				stuckFor = 0
			}
			if o.StallProbe != nil {
				if msg := o.StallProbe(); msg != "" {
					if h := o.onStuck(); h != nil {
						o.stallMsg = msg
						h()
						os.Exit(0)
					}
				}
			}
			b := atomic.LoadInt64(&o.began)
			if b != 0 && time.Since(time.Unix(0, b)) > limit {
				o.Note("TIMEOUT")
				if o.SimActive != nil && !o.SimActive() {
					// no simulated run is in progress: the scheduler cannot be what
					// stalls, the code under test (or the workload) does not return
					o.Note("TIMEOUT-OUTSIDE-SIMULATION")
				}
				buf := make([]byte, 1<<20)
				os.Stderr.Write(buf[:runtime.Stack(buf, true)])
				os.Exit(3)
			}
		}
	}()
}

// Remember keeps the last few completed cases of this process (as replayable
// JSON).  They travel with every finding as its "prelude": if a violation does not
// reproduce on its own in a fresh process - because it needs state that earlier
// cases left behind in the process (a pool, a package-level cache) - the driver
// replays prelude + case as one history.
func (o *Out) Remember(c any) {
	b, err := json.Marshal(c)
	if err != nil || len(b) > 1<<20 {
		return
	}
	o.recent = append(o.recent, json.RawMessage(b))
	if len(o.recent) > 4 {
		o.recent = o.recent[len(o.recent)-4:]
	}
}

// Finding reports one violation candidate with the replayable case.
func (o *Out) Finding(id any, sig, kind, msg string, replay any) {
	m := map[string]any{"t": "finding", "case": id, "sig": sig, "kind": kind, "msg": msg, "replay": replay}
	if len(o.recent) > 0 {
		m["prelude"] = append([]json.RawMessage(nil), o.recent...)
	}
	o.Emit(m)
}

// Trace writes one line per case for the determinism self-test (only when
// VERIF_TRACE is set).  strict: everything that must be a pure function of
// (seed, case index) when the simulator owns all nondeterminism - decision-trace
// hashes, step counts, tapes, result digests.  weak: what must be identical even
// when the library itself iterates a Go map (nd names that routine): signatures,
// order-free result digests, the workload description.  With VERIF_TRACE=2 the
// raw parts are included.
func (o *Out) Trace(id any, nd string, strict []any, weak []any) {
	mode := os.Getenv("VERIF_TRACE")
	if mode == "" {
		return
	}
	rs, rw := fmt.Sprint(strict...), fmt.Sprint(weak...)
	m := map[string]any{"t": "trace", "case": id, "nd": nd, "h": Hash([]byte(rs)), "w": Hash([]byte(rw))}
	if mode == "2" {
		m["raw"] = rs + " || " + rw
	}
	o.Emit(m)
}

func (o *Out) Note(msg string) { o.Emit(map[string]any{"t": "note", "msg": msg}) }

func (o *Out) Count(name string, d int64) { o.Counters[name] += d }

func (o *Out) SetAdd(set, key string) {
	m := o.Sets[set]
	if m == nil {
		m = map[string]struct{}{}
		o.Sets[set] = m
	}
	m[key] = struct{}{}
}

// SampleKind keeps at most perKind samples of each workload kind (and max in
// all), so that the evidence shows what the different kinds of cases look like.
func (o *Out) SampleKind(kind string, v any, perKind, max int) {
	if o.kindSamples == nil {
		o.kindSamples = map[string]int{}
	}
	if o.kindSamples[kind] >= perKind {
		return
	}
	before := len(o.Samples)
	o.Sample(v, max)
	if len(o.Samples) > before {
		o.kindSamples[kind]++
	}
}

func (o *Out) Sample(v any, max int) {
	if len(o.Samples)+o.sampled < max {
		o.Samples = append(o.Samples, v)
	}
}

// Flush writes the statistics accumulated since the last Flush as a delta, so
// that the death of the worker loses at most the cases since then.
func (o *Out) Flush() {
	sets := map[string][]string{}
	for k, m := range o.Sets {
		l := make([]string, 0, len(m))
		for s := range m {
			l = append(l, s)
		}
		sort.Strings(l)
		sets[k] = l
	}
	o.Emit(map[string]any{"t": "stats", "counters": o.Counters, "sets": sets, "samples": o.Samples,
		"wall_s": time.Since(o.start).Seconds()})
	o.Counters = map[string]int64{}
	o.Sets = map[string]map[string]struct{}{}
	o.sampled += len(o.Samples)
	o.Samples = nil
}

// Tick flushes every n calls.
func (o *Out) Tick(n int) {
	o.ticks++
	if o.ticks%n == 0 {
		o.Flush()
	}
}

// ShouldRecycle reports (checking every 32nd call) whether this worker's
// resident set has outgrown VERIF_MAXRSS_MB (default 1500).  Long simulated runs
// accumulate memory that is never returned (one testing.T per bubble, the race
// detector's shadow state): the worker then finishes with reason "restart" and
// the driver starts a fresh process at the next case.
func (o *Out) ShouldRecycle() bool {
	o.recycleTicks++
	if o.recycleTicks%32 != 0 {
		return false
	}
	b, err := os.ReadFile("/proc/self/statm")
	if err != nil {
		return false
	}
	var size, rss int64
	fmt.Sscan(string(b), &size, &rss)
	limit := int64(1500)
	if v := os.Getenv("VERIF_MAXRSS_MB"); v != "" {
		fmt.Sscan(v, &limit)
	}
	return rss*int64(os.Getpagesize()) > limit<<20
}

// Finish writes the remaining statistics.  Reason: "done", "restart".
func (o *Out) Finish(reason string, next int) {
	o.Flush()
	o.Emit(map[string]any{"t": "finish", "reason": reason, "next": next})
}

// Hash is a short stable digest used for distinct-counting.
func Hash(b []byte) string {
	h := sha1.Sum(b)
	return hex.EncodeToString(h[:8])
}
