// Package meshgen draws meshes, vertex pools and scalars from a choice.Source.
// Everything is a function of the tape, so a stored tape regenerates the same
// workload and a shrunk tape gives a simpler one (0 = simplest everywhere).
package meshgen

import (
	"math"

	"github.com/unixpickle/model3d/model2d"
	"github.com/unixpickle/model3d/model3d"
	"verif/harness/choice"
)

// Scalar flavours; index 0 is the simplest.
const (
	FlSmallInt = iota
	FlHalf
	FlFloat32Exact
	FlNineDigits
	FlSignedZero
	FlSubnormal32
	FlSubnormal64
	FlHuge32
	FlBeyond32
	FlTiny
	FlInf
	NumFlavours
)

// Scalar draws one coordinate value.  allow masks flavours (bit i = flavour i).
func Scalar(src *choice.Source, allow uint32) float64 {
	var fl int
	for tries := 0; ; tries++ {
		fl = src.Intn(NumFlavours)
		if allow&(1<<uint(fl)) != 0 || tries > 20 {
			break
		}
	}
	if allow&(1<<uint(fl)) == 0 {
		fl = FlSmallInt
	}
	sign := 1.0
	if src.Chance(1, 2) {
		sign = -1
	}
	switch fl {
	case FlSmallInt:
		return sign * float64(src.Intn(5))
	case FlHalf:
		return sign * float64(src.Intn(64)) / 8
	case FlFloat32Exact:
		return sign * float64(float32(src.Float()*100))
	case FlNineDigits:
		// values whose float32 image needs 9 significant digits
		return sign * (1 + src.Float()) * math.Pow(10, float64(src.Intn(9)-4))
	case FlSignedZero:
		return sign * 0
	case FlSubnormal32:
		return sign * float64(math.Float32frombits(uint32(1+src.Intn(1<<20))))
	case FlSubnormal64:
		return sign * math.Float64frombits(uint64(1+src.Intn(1<<20)))
	case FlHuge32:
		return sign * float64(math.MaxFloat32) * (1 - float64(src.Intn(4))/16)
	case FlBeyond32:
		return sign * 1e39 * float64(1+src.Intn(9))
	case FlTiny:
		return sign * 1e-30 * (1 + src.Float())
	case FlInf:
		return math.Inf(int(sign))
	}
	return 0
}

const (
	AllowPlain  = 1<<FlSmallInt | 1<<FlHalf | 1<<FlFloat32Exact
	AllowFinite = AllowPlain | 1<<FlNineDigits | 1<<FlSignedZero | 1<<FlSubnormal32 | 1<<FlSubnormal64 | 1<<FlHuge32 | 1<<FlTiny
	AllowAll    = AllowFinite | 1<<FlBeyond32 | 1<<FlInf
)

// Pool draws n vertices.
func Pool(src *choice.Source, n int, allow uint32) []model3d.Coord3D {
	res := make([]model3d.Coord3D, n)
	for i := range res {
		res[i] = model3d.XYZ(Scalar(src, allow), Scalar(src, allow), Scalar(src, allow))
	}
	return res
}

// Triangles draws nf faces over the pool: shared vertices, repeated vertices
// (degenerate faces) and value-equal duplicate faces all occur.
func Triangles(src *choice.Source, pool []model3d.Coord3D, nf int) []*model3d.Triangle {
	var res []*model3d.Triangle
	for i := 0; i < nf; i++ {
		if len(res) > 0 && src.Chance(1, 10) {
			// value-equal duplicate of an earlier face (distinct pointer)
			t := *res[src.Intn(len(res))]
			res = append(res, &t)
			continue
		}
		t := &model3d.Triangle{}
		for j := 0; j < 3; j++ {
			t[j] = pool[src.Intn(len(pool))]
		}
		res = append(res, t)
	}
	return res
}

// Pool2 / Segments: the 2-D analogues.
func Pool2(src *choice.Source, n int, allow uint32) []model2d.Coord {
	res := make([]model2d.Coord, n)
	for i := range res {
		res[i] = model2d.XY(Scalar(src, allow), Scalar(src, allow))
	}
	return res
}

func Segments(src *choice.Source, pool []model2d.Coord, ns int) []*model2d.Segment {
	var res []*model2d.Segment
	for i := 0; i < ns; i++ {
		s := &model2d.Segment{pool[src.Intn(len(pool))], pool[src.Intn(len(pool))]}
		res = append(res, s)
	}
	return res
}
