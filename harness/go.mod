module verif/harness

go 1.26

require (
	github.com/pkg/errors v0.9.1
	github.com/unixpickle/essentials v1.3.0
	github.com/unixpickle/model3d v0.0.0
)

require github.com/unixpickle/splaytree v1.1.0 // indirect

replace github.com/unixpickle/model3d => /repo

replace github.com/unixpickle/essentials => ../shim/essentials
