// Package simsolid provides the workload's stub solids: ordered CSG of balls
// and axis-aligned boxes evaluated by the harness itself, wrapped so that
// Contains is a scheduling point of the simulator and counts its calls.
// The same Shape also yields an analytically exact region filter.
package simsolid

import (
	"runtime"
	"math"

	"github.com/unixpickle/model3d/model2d"
	"github.com/unixpickle/model3d/model3d"
	"verif/harness/choice"
	"verif/harness/simsched"
)

type Prim struct {
	Ball     bool
	C        [3]float64
	R        float64
	Min, Max [3]float64
	Neg      bool
	// Closed: the box contains its faces (x >= Min && x <= Max).  The default is
	// the open box.
	Closed bool
}

// Shape: a point is inside iff the last primitive containing it is positive.
type Shape struct {
	Dim   int
	Prims []Prim
	Delta float64
	// lattice origin used for aligned primitives (informational)
	Aligned bool
}

func (p *Prim) contains(x [3]float64, dim int) bool {
	if p.Ball {
		d := 0.0
		for i := 0; i < dim; i++ {
			d += (x[i] - p.C[i]) * (x[i] - p.C[i])
		}
		return d < p.R*p.R
	}
	for i := 0; i < dim; i++ {
		if p.Closed {
			if !(x[i] >= p.Min[i] && x[i] <= p.Max[i]) {
				return false
			}
		} else if !(x[i] > p.Min[i] && x[i] < p.Max[i]) {
			return false
		}
	}
	return true
}

func (p *Prim) bounds(dim int) (lo, hi [3]float64) {
	if p.Ball {
		for i := 0; i < dim; i++ {
			lo[i], hi[i] = p.C[i]-p.R, p.C[i]+p.R
		}
		return
	}
	return p.Min, p.Max
}

// decided reports whether the closed box [a,b] lies wholly inside or wholly
// outside the primitive.
func (p *Prim) decided(a, b [3]float64, dim int) bool {
	if p.Ball {
		var far, near float64
		for i := 0; i < dim; i++ {
			f := math.Max(math.Abs(a[i]-p.C[i]), math.Abs(b[i]-p.C[i]))
			far += f * f
			n := 0.0
			if p.C[i] < a[i] {
				n = a[i] - p.C[i]
			} else if p.C[i] > b[i] {
				n = p.C[i] - b[i]
			}
			near += n * n
		}
		return far < p.R*p.R || near >= p.R*p.R
	}
	inside := true
	for i := 0; i < dim; i++ {
		if p.Closed {
			if b[i] < p.Min[i] || a[i] > p.Max[i] {
				return true // disjoint from the closed box
			}
			if !(a[i] >= p.Min[i] && b[i] <= p.Max[i]) {
				inside = false
			}
			continue
		}
		if b[i] <= p.Min[i] || a[i] >= p.Max[i] {
			return true // disjoint
		}
		if !(a[i] > p.Min[i] && b[i] < p.Max[i]) {
			inside = false
		}
	}
	return inside
}

func (s *Shape) Contains(x [3]float64) bool {
	in := false
	for i := range s.Prims {
		if s.Prims[i].contains(x, s.Dim) {
			in = !s.Prims[i].Neg
		}
	}
	return in
}

func (s *Shape) Bounds() (lo, hi [3]float64) {
	first := true
	for i := range s.Prims {
		if s.Prims[i].Neg {
			continue
		}
		l, h := s.Prims[i].bounds(s.Dim)
		if first {
			lo, hi, first = l, h, false
			continue
		}
		for k := 0; k < s.Dim; k++ {
			lo[k] = math.Min(lo[k], l[k])
			hi[k] = math.Max(hi[k], h[k])
		}
	}
	return
}

// MayContainSurface is the analytically exact conservative filter: false only
// if the classification is provably constant on the closed box [a,b].
func (s *Shape) MayContainSurface(a, b [3]float64) bool {
	for i := range s.Prims {
		if !s.Prims[i].decided(a, b, s.Dim) {
			return true
		}
	}
	return false
}

// Gen draws a shape.  Everything is a function of the tape.
func Gen(src *choice.Source, dim int) *Shape {
	s := &Shape{Dim: dim}
	s.Delta = 0.11 + 0.19*src.Float()
	if src.Chance(1, 4) {
		s.Delta = 0.07 + 0.05*src.Float()
	}
	off := func() float64 { return (src.Float() - 0.5) * 0.2 }
	main := Prim{Ball: src.Chance(1, 2)}
	ext := 0.35 + 0.45*src.Float()
	for i := 0; i < dim; i++ {
		main.C[i] = off()
		e := ext * (0.6 + 0.4*src.Float())
		main.Min[i], main.Max[i] = main.C[i]-e, main.C[i]+e
	}
	main.R = ext
	s.Prims = append(s.Prims, main)
	s.Aligned = src.Chance(1, 3)
	lo, _ := s.Bounds()
	n := src.Intn(4)
	for k := 0; k < n; k++ {
		p := Prim{Ball: src.Chance(1, 2), Neg: src.Chance(1, 3)}
		sz := 0.12 + 0.4*src.Float()
		for i := 0; i < dim; i++ {
			p.C[i] = main.C[i] + (src.Float()-0.5)*1.4*ext
			e := sz * (0.5 + 0.5*src.Float())
			p.Min[i], p.Max[i] = p.C[i]-e, p.C[i]+e
		}
		p.R = sz
		if s.Aligned && !p.Ball {
			// snap the faces next to lattice planes: the marching lattice starts
			// at bounds.min - delta and steps by delta.
			tiny := []float64{1e-4, -1e-4, 2e-3, -2e-3, 1e-7}[src.Intn(5)] * s.Delta
			for i := 0; i < dim; i++ {
				org := lo[i] - s.Delta
				p.Min[i] = org + math.Round((p.Min[i]-org)/s.Delta)*s.Delta + tiny
				p.Max[i] = org + math.Round((p.Max[i]-org)/s.Delta)*s.Delta + tiny
				if p.Max[i] <= p.Min[i] {
					p.Max[i] = p.Min[i] + s.Delta
				}
			}
			if !p.Neg {
				// keep the lattice origin fixed: clamp positive boxes inside the main bounds
				_, hi := s.Prims[0].bounds(dim)
				for i := 0; i < dim; i++ {
					if p.Min[i] < lo[i] {
						p.Min[i] = lo[i] + s.Delta + tiny
					}
					if p.Max[i] > hi[i] {
						p.Max[i] = hi[i] - 1e-3
					}
					if p.Max[i] <= p.Min[i] {
						p.Neg = true
					}
				}
			}
		}
		s.Prims = append(s.Prims, p)
	}
	return s
}

// Flatten turns the shape into a plate: every primitive becomes its bounding box and
// the given axis is squeezed around the shape's centre until the whole shape is
// thickness thick there (volumes with very few lattice layers along one axis).
func (s *Shape) Flatten(axis int, thickness float64) {
	lo, hi := s.Bounds()
	c := (lo[axis] + hi[axis]) / 2
	f := thickness / (hi[axis] - lo[axis])
	for i := range s.Prims {
		p := &s.Prims[i]
		if p.Ball {
			p.Min, p.Max = p.bounds(s.Dim)
			p.Ball = false
		}
		p.Min[axis] = c + (p.Min[axis]-c)*f
		p.Max[axis] = c + (p.Max[axis]-c)*f
	}
}

// GenDyadic2 draws a 2-D shape of closed and open boxes whose faces lie on
// multiples of 1/8, so that with a power-of-two raster scale and a dyadic canvas
// pixel edges, filter-tile edges and the solid's own faces coincide exactly in
// floating point (sub-samples then fall exactly on faces).
func GenDyadic2(src *choice.Source) *Shape {
	s := &Shape{Dim: 2, Delta: 0.125, Aligned: true}
	n := 1 + src.Intn(3)
	for k := 0; k < n; k++ {
		p := Prim{Closed: !src.Chance(1, 3), Neg: k > 0 && src.Chance(1, 3)}
		for i := 0; i < 2; i++ {
			lo := src.Intn(12) - 6
			p.Min[i] = float64(lo) / 8
			p.Max[i] = float64(lo+1+src.Intn(10)) / 8
		}
		s.Prims = append(s.Prims, p)
	}
	return s
}

// ---------------------------------------------------------------- wrappers

// Counter counts Contains calls per point; reached from library goroutines, so
// it is only touched in norace code under the simulator's own lock.
type Counter struct {
	mu     simsched.Mu
	Calls  int
	Per    map[[3]float64]int
	Yields int
}

//go:norace
func (c *Counter) note(x [3]float64, yielded bool) {
	c.mu.Lock()
	c.Calls++
	if yielded {
		c.Yields++
	}
	c.mu.Unlock()
}

// procFault: the "configuration changes under a running call" fault.  Go adjusts
// GOMAXPROCS at run time when the container's CPU limit changes (1.25+), and any
// part of a program may call runtime.GOMAXPROCS; a library call that is in
// progress must not lose or duplicate work because of it.  Armed per simulated run
// by the workload; fires inside the at-th Contains call of that run.
var procFault struct {
	mu        simsched.Mu
	at, to, n int
	fired     int
}

// ArmProcs arms the fault (at = 0 disarms) and returns how often it has fired
// since the last call.
//
//go:norace
func ArmProcs(at, to int) int {
	procFault.mu.Lock()
	f := procFault.fired
	procFault.at, procFault.to, procFault.n, procFault.fired = at, to, 0, 0
	procFault.mu.Unlock()
	return f
}

//go:norace
func procTick() {
	procFault.mu.Lock()
	procFault.n++
	fire := procFault.at > 0 && procFault.n == procFault.at
	to := procFault.to
	if fire {
		procFault.fired++
	}
	procFault.mu.Unlock()
	if fire {
		runtime.GOMAXPROCS(to)
	}
}

// Solid3 adapts a Shape to model3d.Solid.
type Solid3 struct {
	S          *Shape
	YieldEvery uint64 // 0 = never yield
	Salt       uint64
	Cnt        *Counter
}

func hash3(x [3]float64, salt uint64) uint64 {
	h := salt
	for _, v := range x {
		h ^= math.Float64bits(v)
		h *= 0x9e3779b97f4a7c15
		h ^= h >> 29
	}
	return h
}

func (s *Solid3) Min() model3d.Coord3D { lo, _ := s.S.Bounds(); return model3d.NewCoord3DArray(lo) }
func (s *Solid3) Max() model3d.Coord3D { _, hi := s.S.Bounds(); return model3d.NewCoord3DArray(hi) }
func (s *Solid3) Contains(c model3d.Coord3D) bool {
	x := c.Array()
	y := false
	procTick()
	if s.YieldEvery != 0 {
		if h := hash3(x, s.Salt); h%s.YieldEvery == 0 {
			simsched.Yield("solid.contains", int(h>>40&0xff))
			y = true
		}
	}
	if s.Cnt != nil {
		s.Cnt.note(x, y)
	}
	return s.S.Contains(x)
}

// Filter3 returns the exact filter, optionally with extra seed-hashed trues
// (a pure function of the rect: the library calls it from several goroutines).
func (s *Solid3) Filter3(extraEvery uint64) func(r *model3d.Rect) bool {
	return func(r *model3d.Rect) bool {
		a, b := r.MinVal.Array(), r.MaxVal.Array()
		if s.S.MayContainSurface(a, b) {
			return true
		}
		if extraEvery != 0 {
			return (hash3(a, s.Salt)^hash3(b, s.Salt+1))%extraEvery == 0
		}
		return false
	}
}

// Solid2 adapts a Shape to model2d.Solid.
type Solid2 struct {
	S          *Shape
	YieldEvery uint64
	Salt       uint64
	Cnt        *Counter
}

func (s *Solid2) Min() model2d.Coord { lo, _ := s.S.Bounds(); return model2d.XY(lo[0], lo[1]) }
func (s *Solid2) Max() model2d.Coord { _, hi := s.S.Bounds(); return model2d.XY(hi[0], hi[1]) }
func (s *Solid2) Contains(c model2d.Coord) bool {
	x := [3]float64{c.X, c.Y, 0}
	y := false
	procTick()
	if s.YieldEvery != 0 {
		if h := hash3(x, s.Salt); h%s.YieldEvery == 0 {
			simsched.Yield("solid.contains", int(h>>40&0xff))
			y = true
		}
	}
	if s.Cnt != nil {
		s.Cnt.note(x, y)
	}
	return s.S.Contains(x)
}

func (s *Solid2) Filter2(extraEvery uint64) func(r *model2d.Rect) bool {
	return func(r *model2d.Rect) bool {
		a, b := [3]float64{r.MinVal.X, r.MinVal.Y, 0}, [3]float64{r.MaxVal.X, r.MaxVal.Y, 0}
		if s.S.MayContainSurface(a, b) {
			return true
		}
		if extraEvery != 0 {
			return (hash3(a, s.Salt)^hash3(b, s.Salt+1))%extraEvery == 0
		}
		return false
	}
}
