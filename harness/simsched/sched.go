// Package simsched is the deterministic goroutine scheduler (DESIGN.md 3.1).
//
// A run executes inside one testing/synctest bubble.  Every goroutine of the
// system under test parks at Yield points (hooks in /repo, the essentials shim,
// and the workload's own stubs); a scheduler goroutine learns that the whole
// bubble is quiescent from the bubble's fake clock (time.Sleep(1ns) returns only
// then), picks exactly one parked goroutine from the choice source and releases
// it.  All scheduler state is touched only in //go:norace code under an
// assembly spin lock, so the race detector sees exactly the synchronisation the
// library itself performs.
package simsched

import (
	"crypto/sha1"
	"encoding/binary"
	"encoding/hex"
	"fmt"
	"os"
	"runtime"
	"sort"
	"strings"
	"syscall"
	"sync/atomic"
	"testing"
	"testing/synctest"
	"time"

	"verif/harness/choice"
)

type entry struct {
	gid  uint64
	site string
	key  int
	lock uintptr // non-zero: runnable only while this sim-lock is free
	wake chan struct{}
	seq  uint64
}

// Step is one scheduler decision (kept for the first steps of a run only).
type Step struct {
	Task int    `json:"task"`
	Site string `json:"site"`
	Key  int    `json:"key"`
	Of   int    `json:"of"` // number of runnable tasks the choice was made among
}

type Config struct {
	Src       *choice.Source // schedule choices (tape)
	MaxSteps  int            // livelock bound (default 200000)
	Sticky    int            // 0..3: probability/4 of staying with the running task when possible
	Knobs     map[string]int // overrides for simKnob sites
	KeepSteps int            // how many steps to keep verbatim in Result.Head
	// Policy: which runnable task a decision picks.
	//   0  uniformly at random from Src (with Sticky)
	//   1  strict priority, oldest task first (a late-started task is stalled for
	//      as long as anything older can run)
	//   2  strict priority, youngest task first
	//   3  PCT: a random priority per task and a few change points at which the
	//      running task drops below everything else (Burckhardt et al., ASPLOS 2010)
	// The unfair policies draw from Src.Aux() only, and fall back to policy 0 for
	// the rest of the run once one task has been picked FairAfter times in a row
	// while others were runnable (Go's scheduler is preemptive: code may spin).
	Policy    int
	FairAfter int // default 100000
}

type Result struct {
	Steps       int
	Tasks       int
	Preemptions int // decisions that switched away from a task that could have continued
	MaxRunnable int
	TraceHash   string
	Head        []Step
	Deadlock    bool
	Livelock    bool
	Panic       any
	PanicStack  string
	Blocked     []string // sites of tasks parked when a deadlock was declared
	Sites       map[string]int
	LockWaits   int // times a task was found waiting for a held sim-lock
	Policy      int
	Stalled     int  // decisions taken by an unfair policy among two or more runnable tasks
	MaxStall    int  // longest run of consecutive decisions one runnable task was passed over
	Fallback    bool // an unfair policy was dropped after FairAfter picks of one task in a row
	Changes     int  // PCT priority change points that took effect
}

type lockDepth struct {
	gid uint64
	n   int
}

type heldLock struct {
	id   uintptr
	task int
}

type sched struct {
	mu       spin
	pending  []*entry
	seq      uint64
	rootDone bool
	off      bool // free-run mode: Yield returns immediately
	depth    []lockDepth // goroutines inside a mutex critical section of the library (autoyield builds)
	autoCount, autoStride int
	hookCount, hookStride int
	parked   []uint64 // sorted ids of goroutines that have reached a scheduling point (stride runs only)

	// scheduler-goroutine private
	cfg   Config
	tasks map[uint64]int
	held  []heldLock // no Go map here: the runtime's map code carries its own race annotations
	res   Result
	hash  [20]byte
	last  int
	prio    []int // by task id (policies 1-3)
	waiting []int // by task id: consecutive decisions passed over while runnable
	change  []int // PCT: step numbers of the change points
	low     int   // PCT: next priority below everything
	streak  int
}

// Active reports whether a simulated run is in progress in this process.
//
//go:norace
func Active() bool { return current() != nil }

// lastDecision: wall-clock time (unix nanoseconds) of the latest scheduler
// decision of the run in progress, 0 when none is.  Read by StallProbe from the
// worker's real-time watchdog, which lives outside the bubble.
var lastDecision int64

// StallProbe reports, for the worker's watchdog, that the simulated run in
// progress can no longer continue because goroutines of the bubble are blocked on
// something that is not part of the simulation: a channel or lock created outside
// the bubble, i.e. process-wide state of the system under test (a package-level
// semaphore, a pool guarded by a global mutex).  testing/synctest does not count
// such a goroutine as durably blocked, so the scheduler never becomes runnable
// again and neither its deadlock nor its livelock detection can fire.  The probe
// answers only when no decision has been taken for three seconds, no goroutine of
// the bubble is running or runnable, and at least one is blocked non-durably; the
// description names where.  "" otherwise.
func StallProbe() string {
	t := atomic.LoadInt64(&lastDecision)
	if t == 0 || time.Since(time.Unix(0, t)) < 3*time.Second {
		stallSeen = stallObs{}
		return ""
	}
	// Two observations at least a second apart must agree: same decision time
	// (the scheduler has not moved), the process has used no processor time in
	// between (nothing is computing - a long stretch of one task between two
	// scheduling points, a collection, a slow machine all show up here), and the
	// goroutine dump names the same blocked sites.
	now := time.Now()
	cpu := processCPU()
	if stallSeen.decision != t {
		stallSeen = stallObs{decision: t, at: now, cpu: cpu}
		return ""
	}
	if now.Sub(stallSeen.at) < time.Second {
		return ""
	}
	busy := cpu - stallSeen.cpu
	desc := ""
	if busy < 20*time.Millisecond {
		desc = blockedOutside()
	}
	prev := stallSeen.desc
	// (the dump itself costs processor time: measure the next interval from here)
	stallSeen = stallObs{decision: t, at: time.Now(), cpu: processCPU(), desc: desc}
	if desc == "" || desc != prev {
		return ""
	}
	return desc
}

type stallObs struct {
	decision int64
	at       time.Time
	cpu      time.Duration
	desc     string
}

var stallSeen stallObs // watchdog goroutine only

func processCPU() time.Duration {
	var ru syscall.Rusage
	if err := syscall.Getrusage(syscall.RUSAGE_SELF, &ru); err != nil {
		return 0
	}
	return time.Duration(ru.Utime.Nano() + ru.Stime.Nano())
}

// blockedOutside inspects a dump of all goroutines: "" unless every goroutine of
// the bubble is blocked and at least one of them non-durably.
func blockedOutside() string {
	var dump string
	for size := 8 << 20; ; size *= 4 {
		buf := make([]byte, size)
		n := runtime.Stack(buf, true)
		if n < size {
			dump = string(buf[:n])
			break
		}
		if size >= 512<<20 {
			return "" // cannot see every goroutine: no verdict
		}
	}
	var where []string
	for _, g := range strings.Split(dump, "\n\n") {
		head, rest, _ := strings.Cut(g, "\n")
		if !strings.HasPrefix(head, "goroutine ") || !strings.Contains(head, "synctest bubble") {
			continue
		}
		i, j := strings.IndexByte(head, '['), strings.LastIndexByte(head, ']')
		if i < 0 || j < i {
			return ""
		}
		state, _, _ := strings.Cut(head[i+1:j], ",")
		durable := strings.HasSuffix(state, " (durable)")
		state = strings.TrimSuffix(state, " (durable)")
		switch state {
		case "chan send", "chan receive", "select", "sync.Mutex.Lock", "sync.RWMutex.Lock", "sync.RWMutex.RLock",
			"sync.Cond.Wait", "sync.WaitGroup.Wait", "semacquire", "sleep", "synctest.Run", "synctest.Wait",
			"select (no cases)", "chan send (nil chan)", "chan receive (nil chan)":
		default:
			return "" // running, runnable, in a system call, helping the collector ...: not stalled
		}
		if durable {
			continue
		}
		fn := ""
		for _, l := range strings.Split(rest, "\n") {
			if strings.HasPrefix(l, "\t") || strings.HasPrefix(l, "created by") {
				continue
			}
			if strings.Contains(l, "unixpickle/model3d") {
				fn = l
				break
			}
			if fn == "" && !strings.HasPrefix(l, "runtime.") && !strings.HasPrefix(l, "sync.") && !strings.HasPrefix(l, "internal/") {
				fn = l
			}
		}
		if k := strings.LastIndexByte(fn, '('); k > 0 {
			fn = fn[:k]
		}
		fn = strings.TrimPrefix(fn, "github.com/unixpickle/model3d/")
		where = append(where, state+" in "+fn)
	}
	if len(where) == 0 {
		return ""
	}
	sort.Strings(where)
	n := len(where)
	if n > 6 {
		where = append(where[:6], "...")
	}
	return fmt.Sprintf("the run cannot continue: %d goroutine(s) of the system under test are blocked on a channel or lock that is not part of the simulated run (process-wide state), and nothing else can run: %s", n, strings.Join(where, "; "))
}

// Stuck is 1 while a run that exceeded its step budget has not returned yet.
var Stuck int32

var cur *sched // set before the bubble starts, cleared after; read by tasks

//go:norace
func current() *sched { return cur }

//go:norace
func goid() uint64 {
	var buf [64]byte
	n := runtime.Stack(buf[:], false)
	// "goroutine 123 ["
	var id uint64
	for i := len("goroutine "); i < n; i++ {
		c := buf[i]
		if c < '0' || c > '9' {
			break
		}
		id = id*10 + uint64(c-'0')
	}
	return id
}

//go:norace
func (s *sched) park(site string, key int, lock uintptr) {
	e := &entry{gid: goid(), site: site, key: key, lock: lock, wake: make(chan struct{})}
	s.mu.lock()
	if s.off {
		s.mu.unlock()
		return
	}
	s.seq++
	e.seq = s.seq
	s.pending = append(s.pending, e)
	s.mu.unlock()
	<-e.wake
}

// Yield parks the calling goroutine until the scheduler releases it.  Outside
// a simulated run it returns immediately.
//
//go:norace
func Yield(site string, key int) {
	s := current()
	if s == nil {
		return
	}
	if s.hookStride > 1 {
		// very large workloads thin the hand-placed scheduling points too (knob
		// "hook.stride"); one task runs at a time, so the counter follows the schedule
		gid := goid()
		s.mu.lock()
		s.hookCount++
		skip := s.hookCount%s.hookStride != 0
		if s.firstPoint(gid) {
			// a goroutine runs beside its creator until it parks for the first time:
			// its first scheduling point is never thinned away
			skip = false
		}
		s.mu.unlock()
		if skip {
			return
		}
	}
	s.park(site, key, 0)
}

// firstPoint reports (and remembers) whether gid reaches a scheduling point for
// the first time.  Caller holds s.mu.  Goroutine ids grow, so the sorted slice is
// appended to almost always.
//
//go:norace
func (s *sched) firstPoint(gid uint64) bool {
	n := len(s.parked)
	if n == 0 || s.parked[n-1] < gid {
		s.parked = append(s.parked, gid)
		return true
	}
	lo, hi := 0, n
	for lo < hi {
		m := (lo + hi) / 2
		if s.parked[m] < gid {
			lo = m + 1
		} else {
			hi = m
		}
	}
	if lo < n && s.parked[lo] == gid {
		return false
	}
	// (no copy(): the runtime's slicecopy reports its accesses to the race detector
	// even for callers compiled without instrumentation; a plain loop does not)
	s.parked = append(s.parked, 0)
	for i := len(s.parked) - 1; i > lo; i-- {
		s.parked[i] = s.parked[i-1]
	}
	s.parked[lo] = gid
	return true
}

// Acquire parks until the scheduler grants the simulated lock id to this
// goroutine; Release frees it.  The caller still takes the real mutex
// afterwards (it is then uncontended), so the race detector sees the library's
// own lock edges while no goroutine ever blocks non-durably on a mutex.
//
//go:norace
func Acquire(id uintptr, site string, key int) {
	s := current()
	if s == nil {
		return
	}
	s.park(site, key, id)
}

//go:norace
func Release(id uintptr) {
	s := current()
	if s == nil {
		return
	}
	s.mu.lock()
	// the scheduler goroutine reads held only while every task is parked, and
	// this task is running, so a plain write under the spin lock is safe.
	for i := range s.held {
		if s.held[i].id == id {
			s.held[i] = s.held[len(s.held)-1]
			s.held = s.held[:len(s.held)-1]
			break
		}
	}
	s.mu.unlock()
}

// LockDepth is the target of the lock markers that the autoyield instrumenter
// puts around every mutex critical section of the library: +1 after Lock, -1
// before Unlock.  AutoYield is the target of its inserted scheduling points; it
// never parks a goroutine that holds a mutex (a waiter on a sync.Mutex is not
// durably blocked, so the bubble could never become quiescent).
//
//go:norace
func LockDepth(delta int) {
	s := current()
	if s == nil {
		return
	}
	gid := goid()
	s.mu.lock()
	for i := range s.depth {
		if s.depth[i].gid == gid {
			s.depth[i].n += delta
			if s.depth[i].n == 0 {
				s.depth[i] = s.depth[len(s.depth)-1]
				s.depth = s.depth[:len(s.depth)-1]
			}
			s.mu.unlock()
			return
		}
	}
	s.depth = append(s.depth, lockDepth{gid, delta})
	s.mu.unlock()
}

// AtomicYields: whether the scheduling points before sync/atomic and sync.Map
// operations are active (set once per worker process, before any run).  The
// meshing and rendering checks leave them off: Mesh.Add consults the atomic index
// pointer for every face, which would multiply their decisions for nothing.
var AtomicYields = true

//go:norace
func AutoAtomic(site string, key int) {
	if AtomicYields {
		AutoYield(site, key)
	}
}

//go:norace
func AutoYield(site string, key int) {
	s := current()
	if s == nil {
		return
	}
	gid := goid()
	s.mu.lock()
	held := false
	for i := range s.depth {
		if s.depth[i].gid == gid && s.depth[i].n > 0 {
			held = true
		}
	}
	// large workloads thin the inserted points out (knob "auto.stride"); only one
	// task runs at a time, so the counter is a function of the schedule
	s.autoCount++
	skip := s.autoStride > 1 && s.autoCount%s.autoStride != 0
	if (s.autoStride > 1 || s.hookStride > 1) && s.firstPoint(gid) {
		skip = false
	}
	s.mu.unlock()
	if held || skip {
		return
	}
	s.park(site, key, 0)
}

// GoID is the runtime id of the calling goroutine (for exactly-once oracles).
//
//go:norace
func GoID() uint64 { return goid() }

// Knob is the target of the simKnob hooks.
//
//go:norace
func Knob(name string, v int) int {
	s := current()
	if s == nil || s.cfg.Knobs == nil {
		return v
	}
	if o, ok := s.cfg.Knobs[name]; ok && o != 0 {
		return o
	}
	return v
}

//go:norace
func (s *sched) isHeld(id uintptr) bool {
	s.mu.lock()
	defer s.mu.unlock()
	for i := range s.held {
		if s.held[i].id == id {
			return true
		}
	}
	return false
}

//go:norace
func (s *sched) takePending() ([]*entry, bool) {
	s.mu.lock()
	p := s.pending
	s.pending = nil
	done := s.rootDone
	s.mu.unlock()
	return p, done
}

//go:norace
func (s *sched) putBack(p []*entry) {
	s.mu.lock()
	s.pending = append(p, s.pending...)
	s.mu.unlock()
}

//go:norace
func (s *sched) setDone() {
	s.mu.lock()
	s.rootDone = true
	s.mu.unlock()
}

//go:norace
func (s *sched) freeRun() {
	s.mu.lock()
	s.off = true
	p := s.pending
	s.pending = nil
	s.mu.unlock()
	for _, e := range p {
		close(e.wake)
	}
}

// totals since the last FlushTotals (written by Run on the caller's goroutine)
var totals struct {
	policy                    [4]int64
	stalled, changes, fallback int64
	maxStall                  int64
}

// FlushTotals reports, and resets, what the unfair policies did in the runs
// since the last call: the reach counters of the "stalled task" fault.
func FlushTotals(count func(name string, n int64), max func(name string, n int64)) {
	names := [4]string{"policy.random", "policy.oldest_first", "policy.youngest_first", "policy.pct"}
	for i, n := range totals.policy {
		if n > 0 {
			count(names[i], n)
		}
	}
	if totals.stalled > 0 {
		count("fault.stalled_task_decisions", totals.stalled)
	}
	if totals.changes > 0 {
		count("pct_change_points", totals.changes)
	}
	if totals.fallback > 0 {
		count("policy.fairness_fallbacks", totals.fallback)
	}
	if totals.maxStall > 0 {
		max("max_stall_decisions", totals.maxStall)
	}
	totals.policy, totals.stalled, totals.changes, totals.fallback, totals.maxStall = [4]int64{}, 0, 0, 0, 0
}

// DrawPolicy draws a scheduling policy from the auxiliary stream of src: half of
// the runs keep the uniformly random policy, the others get one of the unfair
// ones (a replay file from before the policies existed has no auxiliary tape and
// so keeps policy 0).
func DrawPolicy(src *choice.Source) int {
	switch src.Aux().Intn(8) {
	case 4:
		return 1
	case 5:
		return 2
	case 6, 7:
		return 3
	}
	return 0
}

// pickPriority is the decision of the unfair policies; -1 hands the decision
// back to the random policy.
//
//go:norace
func (s *sched) pickPriority(run []*entry, lastIdx int) int {
	aux := s.cfg.Src.Aux()
	fair := s.cfg.FairAfter
	if fair == 0 {
		fair = 100000
	}
	if s.cfg.Policy == 3 && s.change == nil {
		s.change = []int{}
		for n := aux.Intn(4); n > 0; n-- {
			s.change = append(s.change, aux.Intn(1<<uint(4+aux.Intn(14))))
		}
	}
	// priorities of tasks seen for the first time
	for len(s.prio) < len(s.tasks) {
		id := len(s.prio)
		switch s.cfg.Policy {
		case 1:
			s.prio = append(s.prio, -id)
		case 2:
			s.prio = append(s.prio, id)
		default:
			s.prio = append(s.prio, 1+aux.Intn(1<<16))
		}
	}
	if s.cfg.Policy == 3 && s.last >= 0 {
		for _, c := range s.change {
			if c == s.res.Steps {
				s.low--
				s.prio[s.last] = s.low
				s.res.Changes++
			}
		}
	}
	k := 0
	for i, e := range run {
		a, b := s.tasks[e.gid], s.tasks[run[k].gid]
		if s.prio[a] > s.prio[b] || (s.prio[a] == s.prio[b] && a < b) {
			k = i
		}
	}
	if len(run) > 1 && k == lastIdx {
		s.streak++
		if s.streak >= fair {
			s.res.Fallback = true
			s.cfg.Policy = 0
			return -1
		}
	} else {
		s.streak = 0
	}
	return k
}

//go:norace
func (s *sched) loop() {
	max := s.cfg.MaxSteps
	if max == 0 {
		// a livelock bound, not a workload bound: the longest legitimate runs seen
		// (dual contouring of a 24^3 lattice with a scheduling point in one Contains
		// call out of seven) take several hundred thousand decisions
		max = 3000000
	}
	h := sha1.New()
	s.last = -1
	for {
		time.Sleep(time.Nanosecond) // returns only when the whole bubble is durably blocked
		p, done := s.takePending()
		if len(p) == 0 {
			if !done {
				s.res.Deadlock = true
			}
			break
		}
		// deterministic identities for goroutines seen for the first time
		var fresh []*entry
		for _, e := range p {
			if _, ok := s.tasks[e.gid]; !ok {
				fresh = append(fresh, e)
			}
		}
		sort.SliceStable(fresh, func(i, j int) bool {
			if fresh[i].site != fresh[j].site {
				return fresh[i].site < fresh[j].site
			}
			if fresh[i].key != fresh[j].key {
				return fresh[i].key < fresh[j].key
			}
			return false
		})
		for _, e := range fresh {
			if _, ok := s.tasks[e.gid]; !ok {
				s.tasks[e.gid] = len(s.tasks)
			}
		}
		sort.Slice(p, func(i, j int) bool { return s.tasks[p[i].gid] < s.tasks[p[j].gid] })
		// runnable = not waiting for a held sim-lock
		run := p[:0:0]
		for _, e := range p {
			if e.lock != 0 && s.isHeld(e.lock) {
				s.res.LockWaits++
				continue
			}
			run = append(run, e)
		}
		if len(run) == 0 {
			s.res.Deadlock = true
			for _, e := range p {
				s.res.Blocked = append(s.res.Blocked, e.site)
			}
			s.putBack(p)
			break
		}
		if len(run) > s.res.MaxRunnable {
			s.res.MaxRunnable = len(run)
		}
		k := -1
		lastIdx := -1
		for i, e := range run {
			if s.tasks[e.gid] == s.last {
				lastIdx = i
			}
		}
		if s.cfg.Policy != 0 {
			k = s.pickPriority(run, lastIdx)
		}
		if k < 0 && lastIdx >= 0 && s.cfg.Sticky > 0 && len(run) > 1 {
			if s.cfg.Src.Intn(4) < s.cfg.Sticky {
				k = lastIdx
			}
		}
		if k < 0 {
			k = s.cfg.Src.Intn(len(run))
		}
		chosen := run[k]
		id := s.tasks[chosen.gid]
		if s.cfg.Policy != 0 {
			for len(s.waiting) < len(s.tasks) {
				s.waiting = append(s.waiting, 0)
			}
			for _, e := range run {
				t := s.tasks[e.gid]
				if t == id {
					s.waiting[t] = 0
					continue
				}
				s.waiting[t]++
				if s.waiting[t] > s.res.MaxStall {
					s.res.MaxStall = s.waiting[t]
				}
			}
			if len(run) > 1 {
				s.res.Stalled++
			}
		}
		if lastIdx >= 0 && id != s.last {
			s.res.Preemptions++
		}
		s.last = id
		if chosen.lock != 0 {
			s.mu.lock()
			s.held = append(s.held, heldLock{chosen.lock, id})
			s.mu.unlock()
		}
		var rec [16]byte
		binary.LittleEndian.PutUint32(rec[0:], uint32(id))
		binary.LittleEndian.PutUint64(rec[4:], uint64(int64(chosen.key)))
		h.Write(rec[:12])
		h.Write([]byte(chosen.site))
		s.res.Sites[chosen.site]++
		if len(s.res.Head) < s.cfg.KeepSteps {
			s.res.Head = append(s.res.Head, Step{Task: id, Site: chosen.site, Key: chosen.key, Of: len(run)})
		}
		s.res.Steps++
		atomic.StoreInt64(&lastDecision, time.Now().UnixNano())
		rest := make([]*entry, 0, len(p)-1)
		for _, e := range p {
			if e != chosen {
				rest = append(rest, e)
			}
		}
		s.putBack(rest)
		close(chosen.wake)
		if s.res.Steps >= max {
			s.res.Livelock = true
			// from here on the tasks run unscheduled; if they still do not finish
			// (a genuine endless loop) the worker's real-time watchdog reports the
			// case as a livelock and restarts the process (see wproto.Out.Watch)
			atomic.StoreInt32(&Stuck, 1)
			s.freeRun()
			break
		}
	}
	s.res.Tasks = len(s.tasks)
	s.res.TraceHash = hex.EncodeToString(h.Sum(nil)[:8])
}

// Run executes root inside a fresh bubble under the scheduler and returns what
// happened.  root runs as task 0.  It must be called from outside any bubble.
func Run(t *testing.T, cfg Config, root func()) Result {
	if cfg.Src == nil {
		cfg.Src = choice.Replay(nil)
	}
	stepsDir := os.Getenv("VERIF_STEPS") // debugging aid: dump every decision of every run
	if stepsDir != "" {
		cfg.KeepSteps = 1 << 30
	}
	s := &sched{cfg: cfg, tasks: map[uint64]int{}, autoStride: cfg.Knobs["auto.stride"], hookStride: cfg.Knobs["hook.stride"]}
	s.res.Sites = map[string]int{}
	s.res.Policy = cfg.Policy
	defer func() {
		if stepsDir != "" {
			f, err := os.OpenFile(fmt.Sprintf("%s/steps.%d.txt", stepsDir, os.Getpid()), os.O_CREATE|os.O_APPEND|os.O_WRONLY, 0o644)
			if err == nil {
				fmt.Fprintf(f, "RUN steps=%d tasks=%d hash=%s\n", s.res.Steps, s.res.Tasks, s.res.TraceHash)
				for i, st := range s.res.Head {
					fmt.Fprintf(f, "%d task=%d %s key=%d of=%d\n", i, st.Task, st.Site, st.Key, st.Of)
				}
				f.Close()
			}
		}
	}()
	// The bubble runs in a sub-test: when the race detector reported something
	// during the run, testing/synctest fails the bubble's T and calls FailNow on
	// its parent, which must not unwind the worker's own test goroutine.
	atomic.StoreInt64(&lastDecision, time.Now().UnixNano())
	defer atomic.StoreInt64(&lastDecision, 0)
	t.Run("sim", func(t *testing.T) {
		defer func() {
			// the end-of-bubble deadlock panic of synctest (all goroutines blocked)
			if r := recover(); r != nil {
				if !s.res.Deadlock && s.res.Panic == nil {
					s.res.Panic = fmt.Sprint("synctest: ", r)
				}
			}
			cur = nil
		}()
		synctest.Test(t, func(t *testing.T) {
			// channels a bubble goroutine blocks on must be made inside the bubble
			schedDone := make(chan struct{})
			cur = s
			s.tasks[goid()] = 0
			go func() {
				s.loop()
				close(schedDone)
			}()
			func() {
				defer func() {
					if r := recover(); r != nil {
						s.res.Panic = r
						buf := make([]byte, 1<<14)
						s.res.PanicStack = string(buf[:runtime.Stack(buf, false)])
					}
				}()
				root()
			}()
			s.setDone()
			<-schedDone
			cur = nil
			atomic.StoreInt32(&Stuck, 0)
		})
	})
	if cfg.Policy >= 0 && cfg.Policy < 4 {
		totals.policy[cfg.Policy]++
	}
	totals.stalled += int64(s.res.Stalled)
	totals.changes += int64(s.res.Changes)
	if s.res.Fallback {
		totals.fallback++
	}
	if int64(s.res.MaxStall) > totals.maxStall {
		totals.maxStall = int64(s.res.MaxStall)
	}
	return s.res
}
