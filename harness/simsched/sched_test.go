//go:build verif

package simsched_test

import (
	"fmt"
	"os"
	"runtime"
	"testing"

	"github.com/unixpickle/model3d/model3d"
	"verif/harness/choice"
	_ "verif/harness/hook"
	"verif/harness/simsched"
)

type ySolid struct {
	model3d.Solid
	every uint64
}

func (y *ySolid) Contains(c model3d.Coord3D) bool {
	h := choice.Derive(uint64(int64(c.X*1000)), fmt.Sprint(c.Y, c.Z))
	if h%y.every == 0 {
		simsched.Yield("solid.contains", int(h%97))
	}
	return y.Solid.Contains(c)
}

func canon(m *model3d.Mesh) string {
	return fmt.Sprint(m.NumTriangles(), " ", m.Volume())
}

// TestDeterminism prints one line per seed: trace hash, steps, result digest.
// The selftest script diffs these lines across processes and GOMAXPROCS.
func TestDeterminism(t *testing.T) {
	if os.Getenv("SIMSCHED_SELFTEST") == "" {
		t.Skip()
	}
	var nseeds int
	fmt.Sscan(os.Getenv("SIMSCHED_SELFTEST"), &nseeds)
	for seed := 0; seed < nseeds; seed++ {
		src := choice.New(uint64(seed), "sched")
		workers := 1 + seed%6
		runtime.GOMAXPROCS(workers)
		solid := &ySolid{Solid: model3d.JoinedSolid{&model3d.Sphere{Center: model3d.XYZ(0.03, 0.01, 0.02), Radius: 0.61},
			&model3d.Sphere{Center: model3d.XYZ(0.73, 0.2, 0.1), Radius: 0.37}}, every: 5}
		var out string
		res := simsched.Run(t, simsched.Config{Src: src, Sticky: seed % 3, KeepSteps: 0, Policy: simsched.DrawPolicy(src),
			Knobs: map[string]int{"mc.subDivideVolume": 8, "mc.divideVolume": 16}}, func() {
			m1 := model3d.MarchingCubesFilter(solid, func(*model3d.Rect) bool { return true }, 0.21)
			m2 := model3d.MarchingCubes(solid, 0.21)
			out = canon(m1) + " | " + canon(m2)
		})
		fmt.Printf("DET seed=%d workers=%d steps=%d tasks=%d preempt=%d hash=%s dead=%v live=%v panic=%v out=%s\n",
			seed, workers, res.Steps, res.Tasks, res.Preemptions, res.TraceHash, res.Deadlock, res.Livelock, res.Panic, out)
	}
}

// TestPolicies: what the unfair policies promise.  Oldest-first never lets a
// younger task take a step while an older one can run; a task that spins on a
// flag which only a stalled task sets still finishes (fairness fallback); an
// old replay file (no auxiliary tape) keeps the random policy.
func TestPolicies(t *testing.T) {
	if p := simsched.DrawPolicy(choice.Replay([]uint32{1, 2, 3})); p != 0 {
		t.Fatalf("a source without auxiliary tape drew policy %d", p)
	}
	var order []int
	res := simsched.Run(t, simsched.Config{Src: choice.New(7, "p"), Policy: 1, KeepSteps: 1000}, func() {
		done := make(chan struct{})
		for g := 1; g <= 3; g++ {
			go func() {
				simsched.Yield("start", g)
				for i := 0; i < 5; i++ {
					order = append(order, g)
					simsched.Yield("step", g)
				}
				done <- struct{}{}
			}()
		}
		for i := 0; i < 5; i++ {
			order = append(order, 0)
			simsched.Yield("root", i)
		}
		for g := 0; g < 3; g++ {
			<-done
		}
	})
	if res.Deadlock || res.Livelock || res.Panic != nil {
		t.Fatalf("run failed: %+v", res)
	}
	if fmt.Sprint(order) != "[0 0 0 0 0 1 1 1 1 1 2 2 2 2 2 3 3 3 3 3]" {
		t.Fatalf("oldest-first order: %v", order)
	}
	if res.Stalled == 0 || res.MaxStall < 10 {
		t.Fatalf("stall counters: stalled=%d max=%d", res.Stalled, res.MaxStall)
	}
	// spinning task: root (oldest) spins until the youngest task sets the flag
	flag := false
	res = simsched.Run(t, simsched.Config{Src: choice.New(8, "p"), Policy: 1, FairAfter: 50}, func() {
		go func() {
			simsched.Yield("setter", 0)
			flag = true
		}()
		for !flag {
			simsched.Yield("spin", 0)
		}
	})
	if !res.Fallback || res.Livelock || res.Deadlock {
		t.Fatalf("spinning root: fallback=%v livelock=%v deadlock=%v steps=%d", res.Fallback, res.Livelock, res.Deadlock, res.Steps)
	}
	// PCT is a function of the auxiliary tape
	run := func() (string, []uint32) {
		src := choice.New(9, "p")
		r := simsched.Run(t, simsched.Config{Src: src, Policy: 3}, func() {
			done := make(chan struct{})
			for g := 1; g <= 4; g++ {
				go func() {
					for i := 0; i < 30; i++ {
						simsched.Yield("step", g)
					}
					done <- struct{}{}
				}()
			}
			for g := 0; g < 4; g++ {
				<-done
			}
		})
		return r.TraceHash, src.AuxTape()
	}
	h1, a1 := run()
	h2, a2 := run()
	if h1 != h2 || fmt.Sprint(a1) != fmt.Sprint(a2) || len(a1) == 0 {
		t.Fatalf("PCT runs differ or drew nothing: %s %s %v %v", h1, h2, a1, a2)
	}
}
