//go:build verif

package simsched_test

import (
	"fmt"
	"os"
	"runtime"
	"testing"

	"github.com/unixpickle/model3d/model3d"
	"verif/harness/choice"
	_ "verif/harness/hook"
	"verif/harness/simsched"
)

type ySolid struct {
	model3d.Solid
	every uint64
}

func (y *ySolid) Contains(c model3d.Coord3D) bool {
	h := choice.Derive(uint64(int64(c.X*1000)), fmt.Sprint(c.Y, c.Z))
	if h%y.every == 0 {
		simsched.Yield("solid.contains", int(h%97))
	}
	return y.Solid.Contains(c)
}

func canon(m *model3d.Mesh) string {
	return fmt.Sprint(m.NumTriangles(), " ", m.Volume())
}

// TestDeterminism prints one line per seed: trace hash, steps, result digest.
// The selftest script diffs these lines across processes and GOMAXPROCS.
func TestDeterminism(t *testing.T) {
	if os.Getenv("SIMSCHED_SELFTEST") == "" {
		t.Skip()
	}
	var nseeds int
	fmt.Sscan(os.Getenv("SIMSCHED_SELFTEST"), &nseeds)
	for seed := 0; seed < nseeds; seed++ {
		src := choice.New(uint64(seed), "sched")
		workers := 1 + seed%6
		runtime.GOMAXPROCS(workers)
		solid := &ySolid{Solid: model3d.JoinedSolid{&model3d.Sphere{Center: model3d.XYZ(0.03, 0.01, 0.02), Radius: 0.61},
			&model3d.Sphere{Center: model3d.XYZ(0.73, 0.2, 0.1), Radius: 0.37}}, every: 5}
		var out string
		res := simsched.Run(t, simsched.Config{Src: src, Sticky: seed % 3, KeepSteps: 0,
			Knobs: map[string]int{"mc.subDivideVolume": 8, "mc.divideVolume": 16}}, func() {
			m1 := model3d.MarchingCubesFilter(solid, func(*model3d.Rect) bool { return true }, 0.21)
			m2 := model3d.MarchingCubes(solid, 0.21)
			out = canon(m1) + " | " + canon(m2)
		})
		fmt.Printf("DET seed=%d workers=%d steps=%d tasks=%d preempt=%d hash=%s dead=%v live=%v panic=%v out=%s\n",
			seed, workers, res.Steps, res.Tasks, res.Preemptions, res.TraceHash, res.Deadlock, res.Livelock, res.Panic, out)
	}
}
