package simsched

import "runtime"

// xchg is implemented in assembly so that ThreadSanitizer (which instruments
// only compiled Go code and sync/atomic) cannot see the simulator's own lock:
// the scheduler must not add happens-before edges between the tasks it runs.
func xchg(addr *uint32, v uint32) uint32

type spin struct{ v uint32 }

//go:norace
func (s *spin) lock() {
	for xchg(&s.v, 1) != 0 {
		runtime.Gosched()
	}
}

//go:norace
func (s *spin) unlock() { xchg(&s.v, 0) }

// Mu is a lock for harness-side bookkeeping reached from library goroutines
// (call counters, Cast histories).  Use it only from //go:norace functions.
type Mu struct{ s spin }

//go:norace
func (m *Mu) Lock() { m.s.lock() }

//go:norace
func (m *Mu) Unlock() { m.s.unlock() }
