#include "textflag.h"

// func xchg(addr *uint32, v uint32) uint32
TEXT ·xchg(SB),NOSPLIT,$0-20
	MOVQ addr+0(FP), BX
	MOVL v+8(FP), AX
	XCHGL AX, 0(BX)
	MOVL AX, ret+16(FP)
	RET
