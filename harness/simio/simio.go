// Package simio is the simulated disk: byte files served through readers and
// accepted through writers whose every behaviour (fragmentation, zero-length
// reads, data+EOF, I/O errors, truncation, torn writes) is decided by an explicit
// Delivery / WriteFaults value, so that a run is a pure function of its Case.
package simio

import (
	"errors"
	"io"
)

// ErrInjected is the I/O error injected by the simulator (EIO).
var ErrInjected = errors.New("simio: injected I/O error")

// ErrNoSpace is the injected ENOSPC.
var ErrNoSpace = errors.New("simio: no space left on device")

// SpinPanic is thrown by a Reader when a decoder keeps calling Read after the
// stream has ended: that is the "loops without consuming input" oracle.
type SpinPanic struct {
	Calls         int
	AfterTerminal int
	Reason        string
}

// Delivery describes how a stored file is handed out.
type Delivery struct {
	// MaxFrag>0: each Read returns between 1 and MaxFrag bytes (seeded by FragSeed).
	MaxFrag  int    `json:"max_frag,omitempty"`
	FragSeed uint64 `json:"frag_seed,omitempty"`
	// ZeroEvery>0: a legal (0,nil) is returned before every ZeroEvery-th data read.
	ZeroEvery int `json:"zero_every,omitempty"`
	// DataEOF: the final bytes are returned together with io.EOF.
	DataEOF bool `json:"data_eof,omitempty"`
	// ErrAt>=0 (with HasErr): Read fails with ErrInjected once ErrAt bytes were delivered.
	HasErr       bool `json:"has_err,omitempty"`
	ErrAt        int  `json:"err_at,omitempty"`
	ErrTransient bool `json:"err_transient,omitempty"`
}

type Reader struct {
	data []byte
	pos  int
	d    Delivery
	rng  uint64

	Calls         int
	ZeroReads     int
	DataEOFs      int
	ErrsFired     int
	Frags         int
	AfterTerminal int
	terminal      error
	errDone       bool

	// MaxCalls bounds the total number of Read calls (0 = 8*len+1024).
	MaxCalls int
	// MaxAfterTerminal bounds Read calls made after EOF/error was returned.
	MaxAfterTerminal int
}

func NewReader(data []byte, d Delivery) *Reader {
	return &Reader{data: data, d: d, rng: d.FragSeed | 1, MaxAfterTerminal: 64}
}

func (r *Reader) next() uint64 {
	r.rng += 0x9e3779b97f4a7c15
	z := r.rng
	z = (z ^ (z >> 30)) * 0xbf58476d1ce4e5b9
	z = (z ^ (z >> 27)) * 0x94d049bb133111eb
	return z ^ (z >> 31)
}

// Delivered is the number of bytes handed out so far.
func (r *Reader) Delivered() int { return r.pos }

func (r *Reader) Read(p []byte) (int, error) {
	r.Calls++
	max := r.MaxCalls
	if max == 0 {
		max = 8*len(r.data) + 1024
	}
	if r.Calls > max {
		panic(SpinPanic{Calls: r.Calls, AfterTerminal: r.AfterTerminal, Reason: "too many Read calls for the input length"})
	}
	if r.terminal != nil {
		r.AfterTerminal++
		if r.AfterTerminal > r.MaxAfterTerminal {
			panic(SpinPanic{Calls: r.Calls, AfterTerminal: r.AfterTerminal, Reason: "Read called repeatedly after the stream ended"})
		}
		return 0, r.terminal
	}
	if len(p) == 0 {
		return 0, nil
	}
	if r.d.HasErr && !r.errDone && r.pos >= r.d.ErrAt {
		r.ErrsFired++
		if r.d.ErrTransient {
			r.errDone = true
		} else {
			r.terminal = ErrInjected
		}
		return 0, ErrInjected
	}
	if r.pos >= len(r.data) {
		r.terminal = io.EOF
		return 0, io.EOF
	}
	if r.d.ZeroEvery > 0 && r.Calls%r.d.ZeroEvery == 0 && r.ZeroReads < 3*(r.Calls/r.d.ZeroEvery+1) {
		// at most one zero read in a row: Calls advances on every call.
		r.ZeroReads++
		return 0, nil
	}
	n := len(p)
	if rem := len(r.data) - r.pos; n > rem {
		n = rem
	}
	if r.d.MaxFrag > 0 {
		f := 1 + int(r.next()%uint64(r.d.MaxFrag))
		if f < n {
			n = f
			r.Frags++
		}
	}
	if r.d.HasErr && !r.errDone && r.pos+n > r.d.ErrAt {
		n = r.d.ErrAt - r.pos
	}
	copy(p, r.data[r.pos:r.pos+n])
	r.pos += n
	if r.d.DataEOF && r.pos == len(r.data) {
		r.DataEOFs++
		r.terminal = io.EOF
		return n, io.EOF
	}
	return n, nil
}

// WriteFaults describes how a Writer misbehaves.
type WriteFaults struct {
	// MaxAccept>0: each Write accepts at most MaxAccept bytes and returns
	// io.ErrShortWrite for the rest (short write).
	HasErr  bool `json:"has_err,omitempty"`
	ErrAt   int  `json:"err_at,omitempty"` // fail once ErrAt bytes were accepted
	NoSpace bool `json:"no_space,omitempty"`
	// CrashAt>=0 with HasCrash: bytes beyond CrashAt never become durable.
	HasCrash bool `json:"has_crash,omitempty"`
	CrashAt  int  `json:"crash_at,omitempty"`
}

// Writer is a simulated file being written.
type Writer struct {
	Buf       []byte
	F         WriteFaults
	Calls     int
	ErrsFired int
	failed    bool
}

func NewWriter(f WriteFaults) *Writer { return &Writer{F: f} }

func (w *Writer) Write(p []byte) (int, error) {
	w.Calls++
	if w.failed {
		w.ErrsFired++
		return 0, w.err()
	}
	if w.F.HasErr && len(w.Buf)+len(p) > w.F.ErrAt {
		n := w.F.ErrAt - len(w.Buf)
		if n < 0 {
			n = 0
		}
		w.Buf = append(w.Buf, p[:n]...)
		w.failed = true
		w.ErrsFired++
		return n, w.err()
	}
	w.Buf = append(w.Buf, p...)
	return len(p), nil
}

func (w *Writer) err() error {
	if w.F.NoSpace {
		return ErrNoSpace
	}
	return ErrInjected
}

// Durable returns what survives a crash.
func (w *Writer) Durable() []byte {
	if w.F.HasCrash && w.F.CrashAt < len(w.Buf) {
		return w.Buf[:w.F.CrashAt]
	}
	return w.Buf
}

// SeekReader is a stored file that can also be repositioned (an *os.File, a
// bytes.Reader): a decoder handed such a stream at some offset must read from
// there - what lies before the offset is somebody else's data.
type SeekReader struct {
	Data  []byte
	Pos   int64
	Seeks int
}

func (r *SeekReader) Read(p []byte) (int, error) {
	if r.Pos >= int64(len(r.Data)) {
		return 0, io.EOF
	}
	n := copy(p, r.Data[r.Pos:])
	r.Pos += int64(n)
	return n, nil
}

func (r *SeekReader) Seek(offset int64, whence int) (int64, error) {
	r.Seeks++
	var base int64
	switch whence {
	case io.SeekStart:
	case io.SeekCurrent:
		base = r.Pos
	case io.SeekEnd:
		base = int64(len(r.Data))
	default:
		return 0, errors.New("simio: invalid whence")
	}
	if base+offset < 0 {
		return 0, errors.New("simio: negative position")
	}
	r.Pos = base + offset
	return r.Pos, nil
}
