//go:build verif

// Package hook wires the verif-tagged hook variables of /repo and of the
// essentials shim to the simulator.  Importing it is enough.
package hook

import (
	"github.com/unixpickle/essentials"
	"github.com/unixpickle/model3d/model2d"
	"github.com/unixpickle/model3d/model3d"
	"github.com/unixpickle/model3d/numerical"
	"github.com/unixpickle/model3d/render3d"
	"github.com/unixpickle/model3d/toolbox3d"
	"verif/harness/simsched"
)

func init() {
	model3d.VerifYield, model3d.VerifKnob = simsched.Yield, simsched.Knob
	model2d.VerifYield, model2d.VerifKnob = simsched.Yield, simsched.Knob
	numerical.VerifYield, numerical.VerifKnob = simsched.Yield, simsched.Knob
	render3d.VerifYield, render3d.VerifKnob = simsched.Yield, simsched.Knob
	toolbox3d.VerifYield, toolbox3d.VerifKnob = simsched.Yield, simsched.Knob
	essentials.VerifYield = shimYield
	essentials.VerifAcquire = simsched.Acquire
	essentials.VerifRelease = simsched.Release
}

// shimYield: the per-item scheduling point of the essentials helpers can be
// thinned out for large workloads (knob "cm.itemStride"; default: every item),
// so that a lattice of a million items does not cost a million decisions.  The
// worker-start, reduce and wait points always yield.
//
//go:norace
func shimYield(site string, key int) {
	if site == "cm.worker.item" {
		if stride := simsched.Knob("cm.itemStride", 1); stride > 1 && key%stride != 0 {
			return
		}
	}
	simsched.Yield(site, key)
}
