//go:build verif && autoyield

// Package hookauto wires the hook variables that the autoyield instrumenter adds
// to its scratch copy of the library (verif_auto.go in every package).  It only
// builds against such a copy (build tag autoyield).
package hookauto

import (
	"github.com/unixpickle/model3d/model2d"
	"github.com/unixpickle/model3d/model3d"
	"github.com/unixpickle/model3d/numerical"
	"github.com/unixpickle/model3d/render3d"
	"github.com/unixpickle/model3d/toolbox3d"
	"verif/harness/simsched"
)

func init() {
	model3d.VerifAutoYield, model3d.VerifAutoAtomic, model3d.VerifLock = simsched.AutoYield, simsched.AutoAtomic, simsched.LockDepth
	model2d.VerifAutoYield, model2d.VerifAutoAtomic, model2d.VerifLock = simsched.AutoYield, simsched.AutoAtomic, simsched.LockDepth
	numerical.VerifAutoYield, numerical.VerifAutoAtomic, numerical.VerifLock = simsched.AutoYield, simsched.AutoAtomic, simsched.LockDepth
	render3d.VerifAutoYield, render3d.VerifAutoAtomic, render3d.VerifLock = simsched.AutoYield, simsched.AutoAtomic, simsched.LockDepth
	toolbox3d.VerifAutoYield, toolbox3d.VerifAutoAtomic, toolbox3d.VerifLock = simsched.AutoYield, simsched.AutoAtomic, simsched.LockDepth
}

// Enabled reports that this binary runs the instrumented copy.
const Enabled = true
