// Package choice is the single source of every random decision made by the
// simulator.  A Source is a SplitMix64 stream derived from (seed, label); every
// draw is appended to a tape.  A Source built with Replay feeds a stored tape
// back; once the tape is exhausted every draw is 0, which by convention is the
// simplest choice (lowest task id, no fault, smallest size), so truncating or
// zeroing a tape shrinks a failing execution.
package choice

import "hash/fnv"

type Source struct {
	state     uint64
	tape      []uint32
	replay    []uint32
	pos       int
	replaying bool
	init      uint64
	aux       *Source
}

func mix(z uint64) uint64 {
	z += 0x9e3779b97f4a7c15
	z = (z ^ (z >> 30)) * 0xbf58476d1ce4e5b9
	z = (z ^ (z >> 27)) * 0x94d049bb133111eb
	return z ^ (z >> 31)
}

// Derive hashes a seed with a label into an independent sub-seed.
func Derive(seed uint64, label string) uint64 {
	h := fnv.New64a()
	h.Write([]byte(label))
	return mix(seed ^ mix(h.Sum64()))
}

// New returns the PRNG-backed stream (seed,label).
func New(seed uint64, label string) *Source {
	d := Derive(seed, label)
	return &Source{state: d, init: d}
}

// Replay returns a Source that replays tape and then answers 0 forever.
func Replay(tape []uint32) *Source {
	return &Source{replay: tape, replaying: true}
}

// ReplayAux is Replay with the auxiliary tape (see Aux) given as well.
func ReplayAux(tape, aux []uint32) *Source {
	s := Replay(tape)
	s.aux = Replay(aux)
	return s
}

// Aux returns the auxiliary stream that belongs to s: an independent stream
// with its own tape, for decisions added to a workload later whose draws must
// not move the cells of the main tape (older replay files keep their meaning;
// their auxiliary tape is empty, so every auxiliary draw answers 0).
func (s *Source) Aux() *Source {
	if s.aux == nil {
		if s.replaying {
			s.aux = Replay(nil)
		} else {
			d := mix(s.init ^ 0x6a09e667f3bcc909)
			s.aux = &Source{state: d, init: d}
		}
	}
	return s.aux
}

// AuxTape returns the choices made on the auxiliary stream (nil if unused).
func (s *Source) AuxTape() []uint32 {
	if s.aux == nil {
		return nil
	}
	return s.aux.tape
}

func (s *Source) next() uint64 {
	s.state += 0x9e3779b97f4a7c15
	z := s.state
	z = (z ^ (z >> 30)) * 0xbf58476d1ce4e5b9
	z = (z ^ (z >> 27)) * 0x94d049bb133111eb
	return z ^ (z >> 31)
}

// Intn draws from [0,n).  n<=1 returns 0 without consuming a tape cell, so a
// forced move never costs a cell.
func (s *Source) Intn(n int) int {
	if n <= 1 {
		return 0
	}
	var v int
	if s.replaying {
		if s.pos < len(s.replay) {
			v = int(s.replay[s.pos]) % n
		}
		s.pos++
	} else {
		v = int(s.next() % uint64(n))
	}
	s.tape = append(s.tape, uint32(v))
	return v
}

// Range draws from [lo,hi] inclusive.
func (s *Source) Range(lo, hi int) int {
	if hi <= lo {
		return lo
	}
	return lo + s.Intn(hi-lo+1)
}

// Chance is true with probability num/den (false is the "simple" outcome).
func (s *Source) Chance(num, den int) bool {
	return s.Intn(den) >= den-num
}

// Float draws a float64 in [0,1) with 24 bits.
func (s *Source) Float() float64 {
	return float64(s.Intn(1<<24)) / float64(1<<24)
}

// U64 draws 64 raw bits (two cells would overflow uint32: three 22-bit cells).
func (s *Source) U64() uint64 {
	a := uint64(s.Intn(1 << 22))
	b := uint64(s.Intn(1 << 22))
	c := uint64(s.Intn(1 << 20))
	return a | b<<22 | c<<44
}

// Tape returns every choice made so far.
func (s *Source) Tape() []uint32 { return s.tape }

// Exhausted reports whether a replaying source ran past its tape.
func (s *Source) Exhausted() bool { return s.replaying && s.pos > len(s.replay) }
