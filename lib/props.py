"""Per-property configuration of the ./check driver."""

REAL_CODECS = ["fileformats/*.go (STL, OFF, PLY, CSV readers and writers)", "model3d/import.go", "model3d/export.go",
               "model2d/import.go", "model2d/export.go", "model3d/triangulate.go", "Go runtime, bufio, encoding/csv"]

AUTO = ("the library is compiled from a scratch copy of /repo's working tree (made under /verif/.build on every run) into which "
        "harness/cmd/autoyield has inserted a scheduling point before every channel operation, WaitGroup Wait/Done, goroutine start, "
        "sync/atomic and sync.Map operation, and lock-depth markers around every mutex critical section; nothing else differs from /repo")
SIM_REAL = ["model3d, model2d, numerical, render3d, toolbox3d (all library code, built with -tags verif hooks)", AUTO,
            "Go runtime channels, mutexes, WaitGroups, atomic.Value, sync.Map, global math/rand"]
SIM_SHIM = ["github.com/unixpickle/essentials concurrency.go (same goroutine structure + scheduling points; other files verbatim)"]

PROPS = {
    "C09": {
        "race": False,
        "autoyield": True,
        "hang_is_trouble": True,
        "level": "exploration",
        "budget_s": {"quick": 30, "thorough": 1200},
        "max_cases": {"quick": 0, "thorough": 0},
        "min_fields": ["tape", "sched", "pol"],
        "zero_fields": ["tape", "sched"],
        "rule": ("one case = one generated history from the choice tape. Mesh histories (3-D and 2-D): start from an empty mesh, a face soup or "
                 "the output of a library in-place editor (every entry point of the marching-cubes vertex search incl. 0 and >=53 iterations, "
                 "FlattenBase, EliminateEdges, DualContour with Repair, EliminateCoplanar/Decimate/EliminateColinear, toolbox3d RectSet.Mesh / HeightMap.Mesh), then 3..42 operations from {Add new / duplicate pointer / value-equal copy / "
                 "degenerate / previously removed, Remove present/absent/already removed, AddMesh, Copy (continue on or mutate the copy), DeepCopy, "
                 "MapCoords (injective, many-to-one, sign-of-zero sensitive), Scale/Translate/Rotate, InvertNormals (+twice, 2-D Invert), a query "
                 "that builds the lazy vertex index at that point, a burst of 2..5 simulated reader tasks}. After every operation the real mesh "
                 "is compared with the plain list of current faces (count, Iterate, TriangleSlice, Contains, Min/Max) and, whenever the index "
                 "exists, with a mesh freshly built from that list (VertexSlice, IterateVertices, Find, Neighbors, AllVertexNeighbors, "
                 "diagnostics). Vertex pools contain hash-colliding pairs/triples (built with the exported fast hash) and +-0 variants. "
                 "Map histories: each of the 12 coordinate/edge-keyed map types against an ordinary Go map, all pool keys re-read after every "
                 "operation. distinct_nontrivial = distinct histories."),
        "assumptions": [
            "queries whose result order is unspecified are compared as sets; coordinates that are == count as one vertex (the sign of a zero is normalised)",
            "a mesh freshly built from the current faces is the reference for index-backed queries (the property's own wording); derived-mesh operations have direct oracles",
        ],
        "components": {"real": ["model3d/mesh.go, mesh_ops.go, mc.go (mcSearch), dc.go (Repair), fast_maps.go, coords.go and their model2d twins"],
                       "shim": SIM_SHIM, "stub": ["reference models: []*Triangle list, Go maps (harness code)"]},
    },
    "C20": {
        "race": False,
        "autoyield": True,
        "hang_is_trouble": True,
        "level": "exploration",
        "budget_s": {"quick": 45, "thorough": 1200},
        "max_cases": {"quick": 0, "thorough": 0},
        "min_fields": ["sched", "work", "pol"],
        "zero_fields": ["sched", "work"],
        "rule": ("one case = (image size 2..24, renderer in {RecursiveRayTracer(MaxDepth 0), RayCaster, BidirPathTracer}, worker count 1..32 "
                 "(render.workers knob; more workers than pixels included), NumSamples 1..64 (one case in ten: 65..2064 on a 2x2/2x3 image, batch-size boundaries included), MinSamples 0..NumSamples and beyond, MaxStddev in {0,1e-9,0.01,0.3,1e9}, "
                 "OversaturatedStddevs, custom Convergence {none, pure hash of the mean, always, never}, Antialias {0,0.5,0.9}, LogFunc set/unset, "
                 "per-pixel radiance stream {constant, alternating, heavy-tailed, settling, oversaturated}, goroutine schedule) from two choice tapes. "
                 "The scene is a stub Object that maps each primary ray back to its pixel, records (pixel, value, goroutine, sequence) and is a "
                 "scheduling point. Oracle over the recorded history: pixel == arithmetic mean of exactly the values handed out for it; sample count "
                 "within [min(MinSamples,NumSamples), NumSamples] and == NumSamples without a convergence check; every pixel sampled in exactly one "
                 "contiguous episode of one goroutine and at least once; LogFunc arguments monotone and in range; Render returns (no deadlock/livelock). "
                 "distinct_nontrivial = distinct cases with >=1 preemption."),
        "assumptions": [
            "only the estimator/bookkeeping, exactly-once and termination clauses of C20 are decided here; closed-form radiance, camera inverse, composite objects and transforms are pure functions and not claimed",
            "the radiance of one bidirectional sample is not observable at the Cast seam: BidirPathTracer is checked for sample counts, exactly-once and termination only",
        ],
        "components": {"real": ["render3d (ray_renderer.go, concurrency.go, raytrace.go, raycast.go, bidir.go, camera.go) with -tags verif hooks", "Go runtime channels/WaitGroup, global math/rand"],
                       "shim": [], "stub": ["castObj: render3d.Object whose Cast records the sample history, yields to the scheduler and, in one case of eight, renders a nested picture of another scene from inside Cast"]},
    },
    "C13": {
        "race": True,
        "autoyield": True,
        # the run is not a verdict unless these mechanisms were demonstrably active
        "require_counters": ["auto_yield_decisions", "atomic_site_decisions"],
        "replay_isolated": True,
        "hang_is_trouble": True,
        "level": "exploration",
        "budget_s": {"quick": 90, "thorough": 1500},
        "max_cases": {"quick": 0, "thorough": 0},
        "min_fields": ["sched", "work", "pol"],
        "zero_fields": ["sched", "work"],
        "rule": ("one case = (workload, worker count, schedule) from two choice tapes, run in a -race build under the deterministic "
                 "scheduler (which the race detector cannot see). Part A: 2..8 reader tasks issue generated read-only queries (26 kinds: "
                 "Find/Neighbors/VertexSlice/Iterate/AllVertexNeighbors/MapCoords/SingularVertices/..., ray/sphere collisions, SDFs, "
                 "ColliderSolid, CoordTree, Cached colour func, CacheScalarFunc) on one shared 3-D or 2-D mesh (index absent or prebuilt) "
                 "and on colliders/fields/solids derived from it; each answer must equal the same query made sequentially afterwards. "
                 "Part B: KMeans.Iterate/Assign (dyadic data: exact equality with the 1-worker run), HeightMap.AddSpheresSDF (conservation "
                 "against the recorded spheres), OBJ builders, ToTexture over a hand-made UV map, QuantizedTriangleColor, RayCaster/RecursiveRayTracer.Render (the very same renderer value used by "
                 "two callers; focus points shared by all workers), big-lattice dual contouring with interior points (dcbig), "
                 "and the C12 meshing/rasterising workloads. Oracles: no race report with a model3d frame, value oracle, no deadlock/livelock. "
                 "distinct_nontrivial = distinct cases with >=1 preemption; distinct_interleavings = distinct decision traces."),
        "assumptions": [
            "the race detector decides by happens-before over the synchronisation the library itself performs; the simulator adds no edges (asm spin lock, norace bookkeeping, fake-time quiescence)",
            "interleavings are explored at yield-point granularity; finer-grained conflicts are found by the race detector, not by interleaving",
            "no concurrent mutation API is documented, so histories contain only reads (nothing for a linearizability search to decide)",
        ],
        "components": {"real": SIM_REAL, "shim": SIM_SHIM,
                       "stub": ["reader tasks, recording PointSDF, colour callbacks, simsolid solids (all harness code)"]},
    },
    "C12": {
        "race": False,
        "autoyield": True,
        "hang_is_trouble": True,
        "level": "exploration",
        "budget_s": {"quick": 60, "thorough": 1500},
        "max_cases": {"quick": 0, "thorough": 0},
        "min_fields": ["sched", "work", "pol"],
        "zero_fields": ["sched", "work"],
        "rule": ("one case = (solid, spacing, algorithm, configuration, schedule) drawn from two choice tapes: ordered CSG of balls and boxes "
                 "(a third with faces snapped next to lattice planes), algorithm in {MarchingCubes, MarchingCubesSearch, DualContouring "
                 "(Mesh/MeshInterior), MarchingSquaresSearch, Rasterize}; the reference configuration (1 worker, FIFO schedule, default "
                 "constants, whole-volume buffer, no filter) is compared with a variant run under the simulator with GOMAXPROCS 1..16, "
                 "random/sticky schedule, block-size knobs, DC BufferSize from the 4-row minimum up and MaxGos 0..9, filters "
                 "{always-true, analytically exact, exact+hashed extra trues}, coarse-to-fine with ratio 2..6 (kept only if the coarse mesh "
                 "is within the documented dilation of every fine vertex), rasteriser tile sizes, cropped/padded canvases and closed boxes on a dyadic grid whose faces coincide with pixel and tile edges; "
                 "one MC/DC case in 16 and the dcbig kind use lattices of 48..112 cells per axis with default constants; oracle: identical "
                 "canonical face multiset / pixel array, no deadlock or livelock. distinct_nontrivial = distinct cases with >=1 "
                 "preemption and a non-empty result; distinct_interleavings = distinct SHA-1 of the (task,site,key) decision trace."),
        "assumptions": [
            "Go map iteration order is outside the simulator's control; results are compared as sorted multisets",
            "DualContouring Repair=true is compared only against a repeat of the same configuration (known finding: map-order dependent)",
            "goroutines that become runnable through a channel operation run only up to the hook placed directly after that operation",
        ],
        "components": {"real": SIM_REAL, "shim": SIM_SHIM,
                       "stub": ["simsolid (workload solids with scheduling points in Contains, analytic exact filter; the Contains stub also carries the GOMAXPROCS-changes-under-a-running-call fault)"]},
    },
    "C15": {
        "race": False,
        "level": "exploration",
        "budget_s": {"quick": 25, "thorough": 1200},
        "max_cases": {"quick": 78000, "thorough": 0},
        "min_fields": ["sched", "tape", "pol"],
        "zero_fields": ["sched", "tape"],
        "rule": ("seeded workloads, one per (seed, index): a mesh / record list / PLY header+rows / OFF or ASCII-STL text is drawn from the "
                 "choice tape (vertex pools with shared and duplicated vertices, degenerate faces, +-0, subnormals, values beyond float32, "
                 "9-digit floats; PLY headers with zero-count elements, every scalar type, list lengths at type limits, three encodings), "
                 "written through the library's writer into a simulated file, and read back through simulated readers under six legal "
                 "delivery schedules (as-asked, 1-byte, seeded fragments, fragments+zero-length reads, data+EOF, all combined); the decoded "
                 "value must equal the written one rounded to the format's precision under every schedule. OBJ/MTL/3MF are re-opened and "
                 "re-parsed structurally. Two further kinds: encode_session (2..4 exports through the byte-returning API, all kept by the caller "
                 "and only then read back: handed-out bytes must not change) and concurrent_export (2..4 simulated clients export their own "
                 "meshes to their own simulated files at once under the deterministic goroutine scheduler; every Write of the slow simulated "
                 "disk is a scheduling point; each file must be byte-identical to the one its writer produces alone). "
                 "distinct_nontrivial = distinct (kind, tape) with a non-empty payload."),
        "assumptions": [
            "the harness's own ASCII-STL and OFF writers follow the formats' specifications",
            "CSV and 3MF go through a Mesh (a set), so their faces are compared as multisets",
            "PLY elements without properties are not generated (degenerate; zero bytes per binary row)",
        ],
        "components": {"real": REAL_CODECS + ["fileformats/wavefront_obj.go", "fileformats/3mf.go", "archive/zip, encoding/xml (re-parse)", "os file system of a scratch directory (save_paths: the path-based Mesh.Save* exporters open their files themselves; its history - longer or foreign files already at the path - is what the workload injects)"],
                       "stub": ["simio.Reader / simio.Writer (the simulated disk/stream)", "slowDisk (a simio.Writer whose Write is a scheduling point) and client tasks of the concurrent_export kind"], "shim": []},
    },
    "C16": {
        "race": False,
        "level": "fault_enumeration",
        "rlimit_as": 3 << 30,
        "fresh_process_kinds": ("mem", "slow"),
        "budget_s": {"quick": 150, "thorough": 1500},
        "max_cases": {"quick": 0, "thorough": 0},
        "exhaustive": {"quick": True, "thorough": False},
        "min_fields": ["data_b64"],
        "rule": ("quick tier = exhaustive enumeration over the corpus of valid files: every truncation point (x3 deliveries), "
                 "every single-byte replacement by {00,FF,'-','9',' ',LF,b^80}, every structurally located field (binary count/"
                 "list-length/index fields, every numeric ASCII token) replaced by boundary values, each served by a simulated "
                 "reader (fragmented, zero-length reads, data+EOF, injected EIO terminal/transient); thorough adds seeded "
                 "2-4-fault sequences, splices, random tails and crash prefixes. distinct_nontrivial = distinct "
                 "(decoder, delivery, served bytes) triples with at least one injected fault."),
        "assumptions": [
            "memory oracle is the growth of runtime.MemStats.HeapSys (heap high-water mark) above the post-warm-up baseline: bound 8 MiB + 256*len(input)",
            "a decoder may call Read at most 64 times after the reader returned EOF/error and at most 8*len+1024 times in total; caller-side loops stop at the first error and may receive at most 16*len+4096 rows",
            "worker death (fatal runtime error, RLIMIT_AS=3GiB) is attributed to the case that was begun and not ended",
        ],
        "components": {"real": REAL_CODECS, "stub": ["simio.Reader (the simulated disk/stream)"], "shim": []},
    },
}
