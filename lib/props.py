"""Per-property configuration of the ./check driver."""

REAL_CODECS = ["fileformats/*.go (STL, OFF, PLY, CSV readers and writers)", "model3d/import.go", "model3d/export.go",
               "model2d/import.go", "model2d/export.go", "model3d/triangulate.go", "Go runtime, bufio, encoding/csv"]

PROPS = {
    "C15": {
        "race": False,
        "level": "exploration",
        "budget_s": {"quick": 25, "thorough": 1200},
        "max_cases": {"quick": 60000, "thorough": 0},
        "min_fields": ["tape"],
        "zero_fields": ["tape"],
        "rule": ("seeded workloads, one per (seed, index): a mesh / record list / PLY header+rows / OFF or ASCII-STL text is drawn from the "
                 "choice tape (vertex pools with shared and duplicated vertices, degenerate faces, +-0, subnormals, values beyond float32, "
                 "9-digit floats; PLY headers with zero-count elements, every scalar type, list lengths at type limits, three encodings), "
                 "written through the library's writer into a simulated file, and read back through simulated readers under six legal "
                 "delivery schedules (as-asked, 1-byte, seeded fragments, fragments+zero-length reads, data+EOF, all combined); the decoded "
                 "value must equal the written one rounded to the format's precision under every schedule. OBJ/MTL/3MF are re-opened and "
                 "re-parsed structurally. distinct_nontrivial = distinct (kind, tape) with a non-empty payload."),
        "assumptions": [
            "the harness's own ASCII-STL and OFF writers follow the formats' specifications",
            "CSV and 3MF go through a Mesh (a set), so their faces are compared as multisets",
            "PLY elements without properties are not generated (degenerate; zero bytes per binary row)",
        ],
        "components": {"real": REAL_CODECS + ["fileformats/wavefront_obj.go", "fileformats/3mf.go", "archive/zip, encoding/xml (re-parse)"],
                       "stub": ["simio.Reader / simio.Writer (the simulated disk/stream)"], "shim": []},
    },
    "C16": {
        "race": False,
        "level": "fault_enumeration",
        "rlimit_as": 3 << 30,
        "budget_s": {"quick": 150, "thorough": 1500},
        "max_cases": {"quick": 0, "thorough": 0},
        "exhaustive": {"quick": True, "thorough": False},
        "min_fields": ["data_b64"],
        "rule": ("quick tier = exhaustive enumeration over the corpus of valid files: every truncation point (x3 deliveries), "
                 "every single-byte replacement by {00,FF,'-','9',' ',LF,b^80}, every structurally located field (binary count/"
                 "list-length/index fields, every numeric ASCII token) replaced by boundary values, each served by a simulated "
                 "reader (fragmented, zero-length reads, data+EOF, injected EIO terminal/transient); thorough adds seeded "
                 "2-4-fault sequences, splices, random tails and crash prefixes. distinct_nontrivial = distinct "
                 "(decoder, delivery, served bytes) triples with at least one injected fault."),
        "assumptions": [
            "memory oracle is the growth of runtime.MemStats.HeapSys (heap high-water mark) above the post-warm-up baseline: bound 8 MiB + 256*len(input)",
            "a decoder may call Read at most 64 times after the reader returned EOF/error and at most 8*len+1024 times in total; caller-side loops stop at the first error and may receive at most 16*len+4096 rows",
            "worker death (fatal runtime error, RLIMIT_AS=3GiB) is attributed to the case that was begun and not ended",
        ],
        "components": {"real": REAL_CODECS, "stub": ["simio.Reader (the simulated disk/stream)"], "shim": []},
    },
}
