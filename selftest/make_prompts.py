#!/usr/bin/env python3
"""usage: selftest/make_prompts.py <wave-dir> <suffix>
Writes one prompt file per claimed property for a wave of independently written
breaking changes (sub-agents get the property text and their own scratch
worktree of /repo under <wave-dir>, nothing from /verif)."""
import json, os, sys, glob
wave, suf = sys.argv[1], sys.argv[2]
props = {}
for l in open(os.path.join(os.path.dirname(__file__), "..", "properties.jsonl")):
    p = json.loads(l)
    props[p["id"]] = p
TEMPLATE = """You are helping to evaluate a verification effort for the Go library unixpickle/model3d by writing ONE realistic breaking change (a "seeded bug"). Work ONLY inside your own scratch git worktree: {wave}/wt-{pid}{suf} (a checkout of the library). Never read, write or run anything under /repo or /verif, and do not look at any other {wave}/wt-* or out-* directory. Write your deliverables to {wave}/out-{pid}{suf}/.

Every shell command needs: export GOFLAGS=-mod=mod GOPROXY=off GOSUMDB=off   (no network; use the default `go`).
IMPORTANT: never use `git stash` (the stash is shared between worktrees and other people are working in sibling worktrees). To switch between the clean and the modified state use `git diff > {wave}/out-{pid}{suf}/patch.diff; git checkout .` and `git apply {wave}/out-{pid}{suf}/patch.diff`.
The machine is busy: a full test-suite run can take 3-8 minutes; one test (toolbox3d TestHeigthMapInterp) is known to be flaky under load - re-run it alone if it is the only failure.

THE PROPERTY (id {pid}: "{title}"):
{statement}
(Quantified over: {quant})

YOUR TASK
Make a small, plausible-looking source change to the library (non-test .go files only; something a maintainer might write as an optimisation, refactoring or "cleanup") that BREAKS this property, while:
  1. the library still compiles (`go build ./...` must pass; if you touch a generated file such as model3d/mesh.go, model2d/mesh.go, fast_maps.go, sdf.go, bvh.go..., keep templates/*.template in sync so that `go run codegen.go -check` in the repository root still passes);
  2. the library's existing test suite still passes, unedited:  cd {wave}/wt-{pid}{suf} && go test -vet=off -count=1 ./...   (all packages must be ok);
  3. the breakage needs something SPECIFIC to manifest - a particular interleaving of goroutines, a fault (I/O error / truncation / fragmentation) at a particular point, a multi-step sequence of operations, an unusual input or configuration, or two cooperating sites that each look fine alone. NOT something that ordinary use would expose at once.
You are up against a strong adversary: an automated checker that drives the library with many randomly generated inputs, operation sequences, worker counts, goroutine schedules (random, strict-priority and PCT) and injected faults (I/O errors, fragmentation, truncation, corrupted bytes, files already present on disk, GOMAXPROCS changing during a call, nested calls, stalled goroutines), and compares against simple reference models; it runs under the race detector where the property is about races. Choose the mechanism and the trigger that you judge LEAST likely to be reached by such a checker - a corner of the API that is rarely exercised, a combination of options, a size threshold, a state that only arises after a particular sequence, a dependency on something outside the obvious inputs (process-wide state, earlier calls, environment, allocation reuse) - while still being a clear violation of the property as stated.
These changes have already been written by others (all of them were eventually detected), pick something clearly different:
{previous}
{extra}
Ignore files named verif_hooks_*.go / verif_export.go and calls to simYield/simKnob (test instrumentation, disabled by default); do not modify them and do not rely on them.

DEMONSTRATION
Write a Go test file named demo_test.go containing one or more tests whose names start with TestDemo, which PASS on the unmodified library and FAIL with your change. It must be deterministic or fail with overwhelming probability (if it needs the race detector, say so: it will then be run with -race). The demo test file must NOT be part of patch.diff. Keep the demo reasonably fast (under a minute).

DELIVERABLES in {wave}/out-{pid}{suf}/ :
  - patch.diff   : output of `git diff` in the worktree (library change only, applies with `git apply` on a clean checkout)
  - demo_test.go : the demonstration test; state in meta.json which package directory it must be copied into (e.g. "model3d", "fileformats", "render3d")
  - meta.json    : {{"property":"{pid}","files_changed":[...],"summary":"what was changed","why_breaks":"which clause of the property breaks and how","needs":"what exactly is needed for it to manifest","demo":{{"kind":"go_test","package_dir":"<dir>","run":"<exact go test command, include -race if needed>"}},"suite_passed":true}}
Leave the worktree with your patch applied and the demo file removed. Your final answer: three lines - what you changed, what it needs to manifest, and confirmation that (a) suite passes with the change, (b) demo passes clean / fails with change.
"""
EXTRA = {
 "C20": "The change must make the image depend on something other than the scene, the options and the random stream - the number of worker goroutines, their interleaving, earlier or nested renders in the process, reuse of a renderer - or break exactly-once rendering, early stopping, progress reporting or termination; NOT a bias in a pure sampling, density, camera, composite-object or transform formula (that is covered elsewhere).",
 "C12": "The change must make the result of ONE call depend on the worker count / buffer size / filter / coarse-to-fine pre-pass / internal block sizes, or make repeated identical calls differ.",
}
root = os.path.join(os.path.dirname(__file__), "..", "seeded")
for pid in ["C09", "C12", "C13", "C15", "C16", "C20"]:
    prev = []
    for d in sorted(glob.glob(os.path.join(root, pid + "-*")), key=lambda d: int(d.rsplit("-", 1)[1])):
        m = json.load(open(os.path.join(d, "meta.json")))
        prev.append("  - " + " ".join(m["summary"].split())[:260])
    p = props[pid]
    txt = TEMPLATE.format(wave=wave, suf=suf, pid=pid, title=p["title"], statement=p["statement"], quant=p["quantifier"]["text"],
                          previous="\n".join(prev), extra=EXTRA.get(pid, ""))
    os.makedirs(os.path.join(wave, "prompts"), exist_ok=True)
    open(os.path.join(wave, "prompts", pid + suf + ".txt"), "w").write(txt)
    print(pid, len(txt))
