#!/bin/bash
# usage: selftest/confirm_mutant.sh <dir with patch.diff, demo_test.go|demo program, meta.json> 
# Confirms in a scratch worktree of /repo: demo passes on the clean tree, the
# patch applies and builds, the demo fails with it, and the repository's own
# test suite still passes with it.  Prints one JSON line.
set -u
d=$(realpath "$1"); id=$(basename "$d")
export GOFLAGS=-mod=mod GOPROXY=off GOSUMDB=off
wt=$(mktemp -d /tmp/cmwt.XXXXXX); rmdir "$wt"
git -C /repo worktree add -q --detach "$wt" HEAD || exit 2
trap 'git -C /repo worktree remove --force "$wt" 2>/dev/null; rm -rf "$wt"' EXIT
pkg=$(python3 -c "import json;m=json.load(open('$d/meta.json'));print(m['demo'].get('package_dir','model3d'))")
run=$(python3 -c "import json;m=json.load(open('$d/meta.json'));print(m['demo'].get('run',''))")
race=""; echo "$run" | grep -q -- "-race" && race="-race"
demo="$wt/$pkg/zz_demo_test.go"
cp "$d/demo_test.go" "$demo" 2>/dev/null || { echo "{\"id\":\"$id\",\"error\":\"no demo_test.go\"}"; exit 0; }
cd "$wt"
clean_out=$(timeout 900 go test $race -vet=off -count=1 -run 'Demo|Seeded|Mut|C[0-9][0-9]' ./$pkg 2>&1); clean_rc=$?
# fall back to running every test of the demo file if the name filter matched nothing
if echo "$clean_out" | grep -q "no tests to run"; then
  names=$(grep -o '^func Test[A-Za-z0-9_]*' "$demo" | sed 's/func //' | paste -sd'|')
  clean_out=$(timeout 900 go test $race -vet=off -count=1 -run "^($names)\$" ./$pkg 2>&1); clean_rc=$?
else
  names='Demo|Seeded|Mut|C[0-9][0-9]'
fi
if ! git apply "$d/patch.diff" 2>/dev/null && ! patch -p1 -F3 -s < "$d/patch.diff"; then
  echo "{\"id\":\"$id\",\"error\":\"patch does not apply\"}"; exit 0
fi
mut_out=$(timeout 900 go test $race -vet=off -count=1 -run "^($names)\$|$names" ./$pkg 2>&1); mut_rc=$?
rm -f "$demo"
suite_out=$(timeout 1500 go test -vet=off -count=1 ./... 2>&1); suite_rc=$?
python3 - "$id" "$clean_rc" "$mut_rc" "$suite_rc" "$race" <<PY
import json,sys
id,c,m,s,race=sys.argv[1:6]
print(json.dumps({"id":id,"demo_clean_rc":int(c),"demo_mutant_rc":int(m),"suite_rc":int(s),"race":race,
 "confirmed": int(c)==0 and int(m)!=0 and int(s)==0}))
PY
