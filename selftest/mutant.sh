#!/bin/bash
# usage: selftest/mutant.sh <patch.diff> <PROP> [check args...]
# Applies a patch to a scratch worktree of /repo (outside /repo and /verif), runs
# the check against it through VERIF_REPO, removes the worktree again.
set -u
patch=$(realpath "$1"); prop=$2; shift 2
wt=$(mktemp -d /tmp/mutwt.XXXXXX)
rmdir "$wt"
git -C /repo worktree add -q --detach "$wt" HEAD || exit 2
cleanup() { git -C /repo worktree remove --force "$wt" 2>/dev/null; rm -rf "$wt"; }
trap cleanup EXIT
if ! git -C "$wt" apply "$patch" 2>/dev/null && ! (cd "$wt" && patch -p1 -F3 -s < "$patch"); then
  echo "PATCH DOES NOT APPLY: $patch"; exit 3
fi
cd "$(dirname "$(realpath "$0")")/.." && VERIF_REPO="$wt" ./check "$prop" "$@"
rc=$?
echo "mutant $(basename $(dirname $patch)) on $prop: exit $rc"
exit $rc
