#!/bin/bash
# usage: selftest/determinism.sh [NCASES] [seeds...]
# For every engine/property: the first NCASES cases of each seed are run 8 times
# (real GOMAXPROCS 1/2/4/8/16 x 1..16 worker processes, i.e. 75 processes per
# seed and property) and the per-case trace digests are compared.  Exit 0 iff
# no (run, case) pair differs.
cd "$(dirname "$0")/.." || exit 2
n=${1:-400}; shift
seeds=${*:-"1 2 3"}
rc=0
for p in C09 C12 C13 C15 C16 C20; do
  for s in $seeds; do
    tier=quick; [ $p = C16 ] && tier=thorough
    ./check $p --determinism $n --seed $s --tier $tier || rc=1
  done
done
exit $rc
