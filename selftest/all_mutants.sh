#!/bin/bash
# usage: selftest/all_mutants.sh [ids...]
# Runs every seeded breaking change (seeded/<id>/patch.diff) against the quick
# tier of the property it breaks (scratch worktree of /repo, VERIF_REPO) and
# prints one line per change: caught (exit 1 + signatures) or MISSED (exit 0).
cd "$(dirname "$0")/.." || exit 2
ids=${*:-$(ls seeded)}
miss=0
for id in $ids; do
  prop=$(python3 -c "import json;print(json.load(open('seeded/$id/meta.json'))['property'])")
  out=$(selftest/mutant.sh seeded/$id/patch.diff $prop --no-min 2>&1); rc=$?
  sigs=$(echo "$out" | grep -E "^  [^ ].* x[0-9]+:" | sed -E 's/^  (.*) x[0-9]+:.*/\1/' | cut -c1-90 | paste -sd';' | cut -c1-300)
  case $rc in
    1) echo "$id $prop caught: $sigs";;
    0) echo "$id $prop MISSED"; miss=$((miss+1));;
    *) echo "$id $prop TROUBLE rc=$rc: $(echo "$out" | tail -3 | tr '\n' ' ' | cut -c1-300)";;
  esac
done
rm -rf .build/scratch-*
echo "missed: $miss"
