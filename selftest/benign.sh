#!/bin/bash
# usage: selftest/benign.sh [ids...]
# Runs every behaviour-preserving change kept under benign/<id>/patch.diff against
# the quick tier of ALL checks (scratch worktree, VERIF_REPO).  A sound check stays
# silent: any VIOLATION here is a false alarm of the machinery (or the change is
# not behaviour-preserving after all - look at the replay).
cd "$(dirname "$(realpath "$0")")/.." || exit 2
ids=${*:-$(ls benign 2>/dev/null)}
bad=0
for id in $ids; do
  for prop in C09 C12 C13 C15 C16 C20; do
    out=$(selftest/mutant.sh benign/$id/patch.diff $prop --no-min 2>&1); rc=$?
    case $rc in
      0) echo "$id $prop silent";;
      1) echo "$id $prop ALARM: $(echo "$out" | grep -E "^  [^ ].* x[0-9]+:" | cut -c1-200 | head -3 | tr '\n' ' ')"; bad=$((bad+1));;
      *) echo "$id $prop TROUBLE rc=$rc: $(echo "$out" | tail -2 | tr '\n' ' ' | cut -c1-300)"; bad=$((bad+1));;
    esac
  done
done
rm -rf .build/scratch-*
echo "alarms: $bad"
